//! C01 — packets survive the wire: encode/decode round trip in the MQTT byte layout.
//!
//! For every generated library packet value p:
//!  (a) refdecode(lib_encode(p)) == map(p)   (the bytes are the layout the specification defines)
//!  (b) lib_decode(lib_encode(p)) == p, consuming exactly the bytes produced
//!  (c) lib_decode(ref_encode(map(p), any legal property order / short form / explicit default)) == p
//!  (d) PUBLISH encoded as header + payload chunks gives the same bytes as the inline form
//! plus a sweep of the variable-byte-integer space through both code paths of the library.
use std::num::NonZeroU32;

use ntex_bytes::{BytePages, ByteString, Bytes};
use ntex_codec::Encoder;
use ntex_mqtt::v3::codec as c3;
use ntex_mqtt::v5::codec as c5;
use serde_json::{Value, json};

use crate::genpkt::{self, GenCfg, Item3, Item5};
use crate::libcodec::{self, Ev, Whole};
use crate::map;
use crate::pool::{self, After, Rng, hash_bytes, hex_short};
use crate::refcodec::{self, Packet as R, Prop, Ver};
use crate::report::{Opts, Report, Tier, Violation};

fn vio(rep: &Report, ver: &str, kind: &str, stage: &str, class: String, what: String, replay: Value) {
    rep.violation(Violation {
        signature: format!("{ver}/{kind}/{stage}: {}", pool::abstract_numbers(&class)),
        what,
        replay,
    });
}

/// permute properties but keep the relative order of equal identifiers
fn permute_props(rng: &mut Rng, props: &mut Vec<Prop>) {
    if props.len() < 2 {
        return;
    }
    let mut keyed: Vec<(u64, usize, Prop)> = Vec::new();
    // interleave: give every element a random key, then restore per-id order by sorting the
    // elements of one id among the slots they obtained
    for (i, p) in props.drain(..).enumerate() {
        keyed.push((rng.next(), i, p));
    }
    keyed.sort_by_key(|k| k.0);
    // slots per id in new order
    let mut by_id: std::collections::HashMap<u8, Vec<(usize, Prop)>> = std::collections::HashMap::new();
    for (_, orig, p) in &keyed {
        by_id.entry(p.id()).or_default().push((*orig, p.clone()));
    }
    for v in by_id.values_mut() {
        v.sort_by_key(|x| x.0);
        v.reverse(); // pop from the back gives ascending original order
    }
    for (_, _, p) in keyed {
        let next = by_id.get_mut(&p.id()).unwrap().pop().unwrap().1;
        props.push(next);
    }
}

/// Variants of the reference description that MQTT allows and that must decode to the same
/// library value: permuted properties, MQTT 5 short forms, explicitly encoded defaults.
fn variant(rng: &mut Rng, ver5: bool, mut r: R, rep: &Report) -> R {
    fn perm(rng: &mut Rng, p: &mut Vec<Prop>) {
        permute_props(rng, p);
    }
    let explicit = rng.chance(1, 3);
    match &mut r {
        R::Connect { props, will, .. } => {
            if ver5 {
                if explicit {
                    let have: Vec<u8> = props.iter().map(Prop::id).collect();
                    for d in [
                        Prop::U32(map::pid::SESSION_EXPIRY, 0),
                        Prop::Byte(map::pid::REQUEST_PROBLEM_INFO, 1),
                        Prop::Byte(map::pid::REQUEST_RESPONSE_INFO, 0),
                        Prop::U16(map::pid::TOPIC_ALIAS_MAXIMUM, 0),
                    ] {
                        if !have.contains(&d.id()) && rng.bool() {
                            props.push(d);
                            rep.count("variant_explicit_default", 1);
                        }
                    }
                }
                perm(rng, props);
                if let Some(w) = will {
                    perm(rng, &mut w.props);
                }
            }
        }
        R::ConnAck { props, .. } => {
            if ver5 {
                if explicit {
                    let have: Vec<u8> = props.iter().map(Prop::id).collect();
                    for d in [
                        Prop::U16(map::pid::RECEIVE_MAXIMUM, 65535),
                        Prop::Byte(map::pid::RETAIN_AVAILABLE, 1),
                        Prop::Byte(map::pid::WILDCARD_SUB_AVAILABLE, 1),
                        Prop::Byte(map::pid::SUB_ID_AVAILABLE, 1),
                        Prop::Byte(map::pid::SHARED_SUB_AVAILABLE, 1),
                        Prop::U16(map::pid::TOPIC_ALIAS_MAXIMUM, 0),
                    ] {
                        if !have.contains(&d.id()) && rng.bool() {
                            props.push(d);
                            rep.count("variant_explicit_default", 1);
                        }
                    }
                }
                perm(rng, props);
            }
        }
        R::Publish { props, .. } => {
            if ver5 {
                if explicit && !props.iter().any(|p| p.id() == map::pid::PAYLOAD_FORMAT) {
                    props.push(Prop::Byte(map::pid::PAYLOAD_FORMAT, 0));
                    rep.count("variant_explicit_default", 1);
                }
                perm(rng, props);
            }
        }
        R::PubAck { code, props, .. }
        | R::PubRec { code, props, .. }
        | R::PubRel { code, props, .. }
        | R::PubComp { code, props, .. } => {
            if ver5 {
                let empty = props.as_ref().is_none_or(|p| p.is_empty());
                if empty && rng.bool() {
                    *props = None;
                    rep.count("variant_short_form_3", 1);
                    if *code == Some(0) && rng.bool() {
                        *code = None;
                        rep.count("variant_short_form_2", 1);
                    }
                } else if let Some(p) = props {
                    perm(rng, p);
                }
            }
        }
        R::Disconnect { code, props } | R::Auth { code, props } => {
            if ver5 {
                let empty = props.as_ref().is_none_or(|p| p.is_empty());
                if empty && rng.bool() {
                    *props = None;
                    rep.count("variant_short_form_3", 1);
                    if *code == Some(0) && rng.bool() {
                        *code = None;
                        rep.count("variant_short_form_2", 1);
                    }
                } else if let Some(p) = props {
                    perm(rng, p);
                }
            }
        }
        R::Subscribe { props, .. }
        | R::SubAck { props, .. }
        | R::Unsubscribe { props, .. }
        | R::UnsubAck { props, .. } => {
            if ver5 {
                perm(rng, props);
            }
        }
        R::PingReq | R::PingResp => {}
    }
    r
}

pub fn check_item5(rep: &Report, rng: &mut Rng, it: &Item5, tag: &str) {
    let kind = match it {
        Item5::Packet(p) => map::v5_packet(p).name(),
        Item5::Publish(..) => "PUBLISH",
    };
    let want = match it {
        Item5::Packet(p) => map::v5_packet(p),
        Item5::Publish(p, pl) => map::v5_publish(p, pl),
    };
    let replay = |bytes: &[u8]| json!({"kind": "item5", "tag": tag, "packet": map::brief(&want), "lib_bytes": hex_short(bytes)});
    rep.eval();
    rep.count(&format!("v5_{kind}"), 1);
    let codec = c5::Codec::new();
    let bytes = match libcodec::enc5(&codec, it) {
        Ok(b) => b,
        Err(e) => {
            vio(rep, "v5", kind, "lib-encode", format!("{e:?}"), format!("encode failed with {e:?} for representable packet {}", map::brief(&want)), replay(&[]));
            return;
        }
    };
    rep.distinct(hash_bytes(&bytes));
    // (a) independent spec decoder
    match refcodec::decode(Ver::V5, &bytes) {
        Ok((got, n)) => {
            if n != bytes.len() {
                vio(rep, "v5", kind, "ref-decode", "frame length differs from bytes produced".into(), format!("reference frame is {n} bytes, library produced {}", bytes.len()), replay(&bytes));
            }
            let (a, b) = (map::normalize(true, &got), map::normalize(true, &want));
            if a != b {
                vio(rep, "v5", kind, "ref-decode", "field values differ".into(), format!("spec decoder reads {} but the value encoded was {}", map::brief(&a), map::brief(&b)), replay(&bytes));
            }
        }
        Err(e) => {
            vio(rep, "v5", kind, "ref-decode", format!("{e:?}"), format!("bytes produced by the library are rejected by the spec decoder: {e:?}; packet {}", map::brief(&want)), replay(&bytes));
        }
    }
    // (b) library decode of its own bytes
    check_lib_decode5(rep, it, &bytes, kind, "lib-roundtrip", &replay(&bytes));
    // (c) reference encoder variants
    for _ in 0..2 {
        let var = variant(rng, true, want.clone(), rep);
        match refcodec::encode(Ver::V5, &var) {
            Ok(b2) => {
                rep.count("ref_encoded_variants", 1);
                if b2 != bytes {
                    rep.count("ref_variant_bytes_differ_from_lib", 1);
                }
                let rp = json!({"kind": "item5-ref", "tag": tag, "packet": map::brief(&var), "ref_bytes": hex_short(&b2)});
                check_lib_decode5(rep, it, &b2, kind, "ref-encoded", &rp);
            }
            Err(e) => rep.inconclusive(format!("reference encoder refused {}: {e}", map::brief(&var))),
        }
    }
    // (d) chunked encode path
    if let Item5::Publish(p, pl) = it {
        let mut dst = BytePages::default();
        let codec = c5::Codec::new();
        let mut ok = codec.encodev(c5::Encoded::Publish(p.clone(), None), &mut dst).is_ok();
        let mut off = 0;
        while ok && off < pl.len() {
            let n = (1 + rng.usize(pl.len().min(4096))).min(pl.len() - off);
            ok = codec.encodev(c5::Encoded::PayloadChunk(Bytes::copy_from_slice(&pl[off..off + n])), &mut dst).is_ok();
            off += n;
        }
        let b3 = libcodec::take(&mut dst);
        rep.count("chunked_encodes", 1);
        if !ok || b3 != bytes {
            vio(rep, "v5", kind, "chunked-encode", "bytes differ from inline encoding".into(), format!("header+chunks encoding ok={ok} gives {} bytes, inline {}", b3.len(), bytes.len()), replay(&bytes));
        }
    }
}

fn check_lib_decode5(rep: &Report, it: &Item5, bytes: &[u8], kind: &str, stage: &str, replay: &Value) {
    let codec = c5::Codec::new();
    let f = libcodec::feed5(&codec, bytes, &[]);
    if let Some(e) = f.error {
        vio(rep, "v5", kind, stage, format!("decode error {e:?}"), format!("library decoder returned {e:?}"), replay.clone());
        return;
    }
    if f.left != 0 {
        vio(rep, "v5", kind, stage, "bytes left over".into(), format!("{} bytes not consumed", f.left), replay.clone());
    }
    match libcodec::assemble(&f.events, |p: &c5::Publish| p.payload_size) {
        Ok((whole, open)) => {
            if open || whole.len() != 1 {
                vio(rep, "v5", kind, stage, "not exactly one packet".into(), format!("{} packets, payload open={open}", whole.len()), replay.clone());
                return;
            }
            let same = match (&whole[0], it) {
                (Whole::Packet(a, n), Item5::Packet(b)) => a == b && *n as usize + 1 + refcodec::encode_varint(*n).len() == bytes.len(),
                (Whole::Publish { pkt, payload, .. }, Item5::Publish(b, pl)) => pkt == b && payload == pl,
                _ => false,
            };
            if !same {
                vio(rep, "v5", kind, stage, "decoded value differs".into(), format!("decoded {:?}", abbreviate(&format!("{:?}", whole[0]))), replay.clone());
            }
        }
        Err(e) => vio(rep, "v5", kind, stage, e.clone(), e, replay.clone()),
    }
}

fn abbreviate(s: &str) -> String {
    if s.len() > 600 { format!("{}…", &s[..s.char_indices().take(600).last().map(|x| x.0).unwrap_or(0)]) } else { s.to_string() }
}

pub fn check_item3(rep: &Report, rng: &mut Rng, it: &Item3, tag: &str) {
    let want = match it {
        Item3::Packet(p) => map::v3_packet(p),
        Item3::Publish(p, pl) => map::v3_publish(p, pl),
    };
    let kind = want.name();
    let replay = |bytes: &[u8]| json!({"kind": "item3", "tag": tag, "packet": map::brief(&want), "lib_bytes": hex_short(bytes)});
    rep.eval();
    rep.count(&format!("v3_{kind}"), 1);
    let codec = c3::Codec::new();
    let bytes = match libcodec::enc3(&codec, it) {
        Ok(b) => b,
        Err(e) => {
            vio(rep, "v3", kind, "lib-encode", format!("{e:?}"), format!("encode failed with {e:?} for representable packet {}", map::brief(&want)), replay(&[]));
            return;
        }
    };
    rep.distinct(hash_bytes(&bytes));
    match refcodec::decode(Ver::V3, &bytes) {
        Ok((got, n)) => {
            if n != bytes.len() {
                vio(rep, "v3", kind, "ref-decode", "frame length differs from bytes produced".into(), format!("reference frame is {n} bytes, library produced {}", bytes.len()), replay(&bytes));
            }
            let (a, b) = (map::normalize(false, &got), map::normalize(false, &want));
            if a != b {
                vio(rep, "v3", kind, "ref-decode", "field values differ".into(), format!("spec decoder reads {} but the value encoded was {}", map::brief(&a), map::brief(&b)), replay(&bytes));
            }
        }
        Err(e) => {
            vio(rep, "v3", kind, "ref-decode", format!("{e:?}"), format!("bytes produced by the library are rejected by the spec decoder: {e:?}; packet {}", map::brief(&want)), replay(&bytes));
        }
    }
    check_lib_decode3(rep, it, &bytes, kind, "lib-roundtrip", &replay(&bytes));
    match refcodec::encode(Ver::V3, &want) {
        Ok(b2) => {
            rep.count("ref_encoded_variants", 1);
            if b2 != bytes {
                // v3 has no freedom of layout: the spec encoder must give the same bytes
                vio(rep, "v3", kind, "ref-encode", "reference bytes differ from library bytes".into(), format!("ref {} vs lib {}", hex_short(&b2), hex_short(&bytes)), replay(&bytes));
            }
            check_lib_decode3(rep, it, &b2, kind, "ref-encoded", &replay(&b2));
        }
        Err(e) => rep.inconclusive(format!("reference encoder refused {}: {e}", map::brief(&want))),
    }
    if let Item3::Publish(p, pl) = it {
        let mut dst = BytePages::default();
        let codec = c3::Codec::new();
        let mut ok = codec.encodev(c3::Encoded::Publish(p.clone(), None), &mut dst).is_ok();
        let mut off = 0;
        while ok && off < pl.len() {
            let n = (1 + rng.usize(pl.len().min(4096))).min(pl.len() - off);
            ok = codec.encodev(c3::Encoded::PayloadChunk(Bytes::copy_from_slice(&pl[off..off + n])), &mut dst).is_ok();
            off += n;
        }
        let b3 = libcodec::take(&mut dst);
        rep.count("chunked_encodes", 1);
        if !ok || b3 != bytes {
            vio(rep, "v3", kind, "chunked-encode", "bytes differ from inline encoding".into(), format!("header+chunks encoding ok={ok} gives {} bytes, inline {}", b3.len(), bytes.len()), replay(&bytes));
        }
    }
}

fn check_lib_decode3(rep: &Report, it: &Item3, bytes: &[u8], kind: &str, stage: &str, replay: &Value) {
    let codec = c3::Codec::new();
    let f = libcodec::feed3(&codec, bytes, &[]);
    if let Some(e) = f.error {
        vio(rep, "v3", kind, stage, format!("decode error {e:?}"), format!("library decoder returned {e:?}"), replay.clone());
        return;
    }
    if f.left != 0 {
        vio(rep, "v3", kind, stage, "bytes left over".into(), format!("{} bytes not consumed", f.left), replay.clone());
    }
    match libcodec::assemble(&f.events, |p: &c3::Publish| p.payload_size) {
        Ok((whole, open)) => {
            if open || whole.len() != 1 {
                vio(rep, "v3", kind, stage, "not exactly one packet".into(), format!("{} packets, payload open={open}", whole.len()), replay.clone());
                return;
            }
            let same = match (&whole[0], it) {
                (Whole::Packet(a, n), Item3::Packet(b)) => a == b && *n as usize + 1 + refcodec::encode_varint(*n).len() == bytes.len(),
                (Whole::Publish { pkt, payload, .. }, Item3::Publish(b, pl)) => pkt == b && payload == pl,
                _ => false,
            };
            if !same {
                vio(rep, "v3", kind, stage, "decoded value differs".into(), format!("decoded {:?}", abbreviate(&format!("{:?}", whole[0]))), replay.clone());
            }
        }
        Err(e) => vio(rep, "v3", kind, stage, e.clone(), e, replay.clone()),
    }
}

/// Fixed-header path: PUBLISH header with Remaining Length `r` (payload declared, not allocated).
fn varint_fixed_header(rep: &Report, r: u32) {
    // v3, QoS 0, topic "t": remaining = 2 + 1 + payload
    let n = r - 3;
    let p = c3::Publish { dup: false, retain: false, qos: c3::QoS::AtMostOnce, topic: ByteString::from_static("t"), packet_id: None, payload_size: n };
    let codec = c3::Codec::new();
    let mut dst = BytePages::default();
    if let Err(e) = codec.encodev(c3::Encoded::Publish(p.clone(), None), &mut dst) {
        vio(rep, "v3", "PUBLISH", "varint-fixed-header", format!("encode error {e:?}"), format!("remaining length {r}: {e:?}"), json!({"kind": "varint", "path": "fixed", "value": r}));
        return;
    }
    let b = libcodec::take(&mut dst);
    let mut want = vec![0x30u8];
    want.extend_from_slice(&refcodec::encode_varint(r));
    want.extend_from_slice(&[0, 1, b't']);
    if b != want {
        vio(rep, "v3", "PUBLISH", "varint-fixed-header", "encoded bytes differ from spec".into(), format!("remaining length {r}: lib {} spec {}", hex_short(&b), hex_short(&want)), json!({"kind": "varint", "path": "fixed", "value": r}));
        return;
    }
    let f = libcodec::feed3(&c3::Codec::new(), &b, &[]);
    let ok = f.error.is_none()
        && matches!(f.events.first(), Some(Ev::Publish(q, first, size)) if *q == p && first.is_empty() && *size == r);
    if !ok || f.left != 0 {
        vio(rep, "v3", "PUBLISH", "varint-fixed-header", "decoded header differs".into(), format!("remaining length {r}: events {:?} err {:?} left {}", f.events.len(), f.error, f.left), json!({"kind": "varint", "path": "fixed", "value": r}));
    }
}

/// Cursor path: Subscription Identifier property of a v5 SUBSCRIBE.
fn varint_property(rep: &Report, v: u32, codec: &c5::Codec) {
    let s = c5::Subscribe {
        packet_id: std::num::NonZeroU16::new(1).unwrap(),
        id: Some(NonZeroU32::new(v).unwrap()),
        user_properties: Vec::new(),
        topic_filters: vec![(ByteString::from_static("t"), c5::SubscriptionOptions::default())],
    };
    let mut dst = BytePages::default();
    if let Err(e) = codec.encodev(c5::Encoded::Packet(c5::Packet::Subscribe(s.clone())), &mut dst) {
        vio(rep, "v5", "SUBSCRIBE", "varint-property", format!("encode error {e:?}"), format!("subscription id {v}: {e:?}"), json!({"kind": "varint", "path": "property", "value": v}));
        return;
    }
    let b = libcodec::take(&mut dst);
    let vi = refcodec::encode_varint(v);
    let mut want = vec![0x82u8, (2 + 1 + 1 + vi.len() + 4) as u8, 0, 1, (1 + vi.len()) as u8, 0x0B];
    want.extend_from_slice(&vi);
    want.extend_from_slice(&[0, 1, b't', 0]);
    if b != want {
        vio(rep, "v5", "SUBSCRIBE", "varint-property", "encoded bytes differ from spec".into(), format!("subscription id {v}: lib {} spec {}", hex_short(&b), hex_short(&want)), json!({"kind": "varint", "path": "property", "value": v}));
        return;
    }
    let f = libcodec::feed5(codec, &b, &[]);
    let ok = f.error.is_none() && f.left == 0 && matches!(f.events.first(), Some(Ev::Packet(c5::Packet::Subscribe(q), _)) if *q == s);
    if !ok {
        vio(rep, "v5", "SUBSCRIBE", "varint-property", "decoded value differs".into(), format!("subscription id {v}: err {:?} left {}", f.error, f.left), json!({"kind": "varint", "path": "property", "value": v}));
    }
}

pub fn run(opts: &Opts) -> i32 {
    let rep = Report::new(
        opts,
        "exploration",
        "differential against an independent spec codec: structure-aware random library packet values of all 14 v3 + \
         15 v5 kinds (every optional field/property independently present or absent, every enum discriminant, \
         string lengths at 0/1/127/128/16383/16384/65535, payload sizes across Remaining-Length boundaries), \
         enumerated pairwise presence combinations per kind, reference re-encodings with permuted properties / \
         short forms / explicit defaults, and a sweep of variable-byte integers through the fixed-header and the \
         property code path. distinct = distinct encoded byte strings (plus distinct integers in the sweep)",
    );
    if opts.replay.is_some() {
        println!("C01 replay: re-run with the same --seed; the replay file names tag=<stream>/<index>");
    }
    let quick = opts.tier == Tier::Quick;
    let sc = opts.scale;

    // ---- A. random packets
    let n_rand = ((if quick { 1_000_000.0 } else { 40_000_000.0 }) * sc) as u64;
    // (interpreter stage: small batches and small sweep chunks)
    let interp = std::env::var("VERIF_SANITIZER").as_deref() == Ok("miri");
    let batch = if interp { 12u64 } else { 200u64 };
    pool::par_for(n_rand / batch, None, |bi| {
        let mut rng = Rng::for_case(opts.seed, "C01-rand", bi);
        for k in 0..batch {
            let cfg = if rng.chance(1, 12) { GenCfg::FULL } else { GenCfg::SMALL };
            let v5 = rng.chance(3, 5);
            let tag = format!("rand/{bi}/{k}");
            let r = if v5 {
                let kind = rng.usize(15);
                let mask = rng.next();
                let it = genpkt::gen_v5(&mut rng, kind, mask, &cfg);
                let mut r2 = rng.clone();
                let res = pool::catch(|| check_item5(&rep, &mut r2, &it, &tag));
                if bi == 0 && k < 6 {
                    rep.sample(12, || json!({"v5": match &it { Item5::Packet(p) => map::brief(&map::v5_packet(p)), Item5::Publish(p, pl) => map::brief(&map::v5_publish(p, pl)) }}));
                }
                res
            } else {
                let kind = rng.usize(14);
                let mask = rng.next();
                let it = genpkt::gen_v3(&mut rng, kind, mask, &cfg);
                let mut r2 = rng.clone();
                let res = pool::catch(|| check_item3(&rep, &mut r2, &it, &tag));
                if bi == 0 && k < 6 {
                    rep.sample(12, || json!({"v3": match &it { Item3::Packet(p) => map::brief(&map::v3_packet(p)), Item3::Publish(p, pl) => map::brief(&map::v3_publish(p, pl)) }}));
                }
                res
            };
            rng.next();
            if let Err(p) = r {
                rep.violation(Violation { signature: p.signature(), what: format!("panic during round trip ({tag}): {} at {}", p.msg, p.location), replay: json!({"kind": "rand", "tag": tag}) });
            }
        }
        After::Continue
    });

    // ---- B. pairwise presence combinations, enumerated
    let mut jobs: Vec<(bool, usize, u64)> = Vec::new();
    for kind in 0..15usize {
        let bits = genpkt::v5_mask_bits(kind);
        for i in 0..bits {
            for j in (i + 1)..bits.max(1) {
                for combo in 0..4u64 {
                    jobs.push((true, kind, ((combo & 1) << i) | ((combo >> 1) << j) | (1 << 62) | ((i as u64) << 40) | ((j as u64) << 48)));
                }
            }
        }
        if bits <= 1 {
            jobs.push((true, kind, 0));
            jobs.push((true, kind, 1));
        }
    }
    for kind in 0..14usize {
        for m in 0..(1u64 << genpkt::v3_mask_bits(kind)) {
            jobs.push((false, kind, m));
        }
    }
    let reps = if quick { 8 } else { 60 };
    rep.extra("pairwise_jobs", json!(jobs.len() * reps));
    pool::par_for((jobs.len() * reps) as u64, None, |ji| {
        let (v5, kind, m) = jobs[ji as usize % jobs.len()];
        let mut rng = Rng::for_case(opts.seed, "C01-pair", ji);
        // bits i and j are fixed by the job, the others random
        let (i, j) = (((m >> 40) & 0xff) as u32, ((m >> 48) & 0xff) as u32);
        let mask = if m & (1 << 62) != 0 {
            let fixed = (1u64 << i) | (1u64 << j);
            (rng.next() & !fixed) | (m & fixed)
        } else {
            m
        };
        let tag = format!("pair/{ji}");
        let res = if v5 {
            let it = genpkt::gen_v5(&mut rng, kind, mask, &GenCfg::SMALL);
            pool::catch(|| check_item5(&rep, &mut rng.clone(), &it, &tag))
        } else {
            let it = genpkt::gen_v3(&mut rng, kind, mask, &GenCfg::SMALL);
            pool::catch(|| check_item3(&rep, &mut rng.clone(), &it, &tag))
        };
        rep.count("pairwise_cases", 1);
        if let Err(p) = res {
            rep.violation(Violation { signature: p.signature(), what: format!("panic during round trip ({tag}): {}", p.msg), replay: json!({"kind": "pair", "tag": tag}) });
        }
        After::Continue
    });

    // ---- C. variable byte integers
    let max: u32 = 268_435_455;
    let mut ranges: Vec<(u32, u32, u32)> = Vec::new(); // lo, hi (incl), stride
    if quick {
        ranges.push((1, 1 << 21, 1));
        for b in [127u32, 128, 16383, 16384, 2_097_151, 2_097_152, max] {
            ranges.push((b.saturating_sub(300).max(1), (b + 300).min(max), 1));
        }
        ranges.push((1 << 21, max, 4099));
    } else {
        ranges.push((1, max, 1));
    }
    let mut total_vals = 0u64;
    let chunk = if interp { 48u64 } else { 1u64 << 16 };
    let mut chunks: Vec<(u32, u32, u32)> = Vec::new();
    for (lo, hi, stride) in ranges {
        let mut a = lo as u64;
        while a <= hi as u64 {
            let b = (a + chunk * stride as u64 - 1).min(hi as u64);
            chunks.push((a as u32, b as u32, stride));
            a = b + 1;
            // keep alignment of the stride
            if stride > 1 {
                a = a.div_ceil(stride as u64) * stride as u64;
            }
        }
    }
    let covered = std::sync::atomic::AtomicU64::new(0);
    pool::par_for(chunks.len() as u64, None, |ci| {
        let (lo, hi, stride) = chunks[ci as usize];
        let codec5 = c5::Codec::new();
        let mut n = 0u64;
        let r = pool::catch(|| {
            let mut v = lo;
            loop {
                if v >= 3 {
                    varint_fixed_header(&rep, v);
                }
                varint_property(&rep, v, &codec5);
                n += 1;
                match v.checked_add(stride) {
                    Some(nv) if nv <= hi => v = nv,
                    _ => break,
                }
            }
        });
        covered.fetch_add(n, std::sync::atomic::Ordering::Relaxed);
        if let Err(p) = r {
            rep.violation(Violation { signature: p.signature(), what: format!("panic in varint sweep chunk {lo}..{hi}: {}", p.msg), replay: json!({"kind": "varint-chunk", "lo": lo, "hi": hi}) });
        }
        After::Continue
    });
    total_vals += covered.load(std::sync::atomic::Ordering::Relaxed);
    rep.evals(total_vals * 2);
    rep.count("varint_values_swept", total_vals);
    rep.extra("varint_sweep", json!({"values": total_vals, "complete_2^28": !quick, "paths": ["PUBLISH fixed header (Remaining Length)", "SUBSCRIBE Subscription Identifier property"]}));
    for b in 0..total_vals.min(1 << 20) {
        // distinct integers are distinct cases; register a bounded number of hashes
        rep.distinct(pool::mix(0xC01, b));
    }
    rep.sample(20, || json!({"varint": {"value": 16384, "fixed_header_bytes": "30 80 80 01 00 01 74", "property_bytes": "82 .. 0b 80 80 01"}}));

    rep.assume("independent reference codec in harness/src/refcodec (self-tested at start-up)");
    rep.assume("semantic equality: property order between different identifiers is irrelevant; a property equal to its spec default equals its absence; MQTT 5 short ack forms equal reason 0x00 without properties");
    rep.assume("values MQTT cannot carry (strings > 65535 bytes, sizes > 268435455) are not generated");
    rep.require("ref_encoded_variants", 1000);
    rep.require("varint_values_swept", 1 << 20);
    for k in genpkt::V5_KINDS {
        rep.require(&format!("v5_{k}"), 50);
    }
    for k in genpkt::V3_KINDS {
        rep.require(&format!("v3_{k}"), 50);
    }
    rep.finish()
}
