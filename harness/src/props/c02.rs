//! C02 — hostile or malformed bytes can neither crash nor desynchronise the decoder.
//!
//! Inputs: every byte string up to a small length; valid frames (library generator) mutated at
//! model level (zero packet id, QoS 3, unknown / repeated / misplaced property, unknown reason
//! code, invalid UTF-8) and at byte level guided by the reference layout map (every length /
//! count field at every nesting level inflated and deflated, truncation at every offset, bit
//! flips, spliced frames); each delivered whole, byte-at-a-time, at every single cut and at
//! random cut sets, under several max-size / min-chunk configurations; for the v3 codec, the v5
//! codec and the protocol-version sniffer.
//!
//! Oracle: panic hook (overflow checks on); byte accounting against the reference framing; a
//! sentinel frame after every accepted frame must still decode; the reference decoder's verdict
//! restricted to the must-reject list of the statement; re-encode/decode stability.
use ntex_bytes::BytesMut;
use ntex_codec::Decoder;
use ntex_mqtt::error::DecodeError;
use ntex_mqtt::v3::codec as c3;
use ntex_mqtt::v5::codec as c5;
use serde_json::{Value, json};

use crate::genpkt::{self, GenCfg, Item3, Item5};
use crate::libcodec::{self, Ev, Feed};
use crate::map;
use crate::pool::{self, After, Rng, hash_bytes, hex, hex_short, unhex};
use crate::refcodec::{self, DecErr, FieldKind, Packet as R, Prop, Ver};
use crate::report::{Opts, Report, Tier, Violation};

const SENTINEL: [u8; 2] = [0xC0, 0x00]; // PINGREQ

/// categories of the statement's must-reject list, recognised in the reference decoder's reason
fn must_reject_category(ver: Ver, reason: &str) -> Option<&'static str> {
    if reason.contains("runs past the end of") {
        Some("inner length contradicts Remaining Length")
    } else if reason.contains("bytes left over after the last field") {
        Some("bytes left over inside the frame")
    } else if reason.contains("unknown property identifier") || reason.contains("is not allowed in") {
        Some("unknown property")
    } else if reason.contains("is not defined for") {
        if ver == Ver::V3 { None } else { Some("unknown reason code") }
    } else if reason.contains("appears more than once") {
        Some("repeated once-only property")
    } else if reason.contains("packet identifier is 0") {
        Some("zero packet identifier")
    } else if reason.contains("QoS 3") {
        Some("QoS 3")
    } else if reason.contains("requested QoS byte") {
        // only the value 3 in the QoS bits is in the list; reserved upper bits are left open
        let v = reason.split("0x").nth(1).and_then(|s| u8::from_str_radix(&s[..2], 16).ok()).unwrap_or(0);
        if v & 3 == 3 { Some("QoS 3") } else { None }
    } else if reason.contains("is not valid UTF-8") {
        Some("invalid UTF-8")
    } else {
        None
    }
}

#[derive(Clone, Copy, PartialEq, Eq, Debug)]
enum Which {
    V3,
    V5,
}

struct Ctx<'a> {
    rep: &'a Report,
    tag: String,
}

fn vio(c: &Ctx<'_>, which: Which, class: String, what: String, input: &[u8], extra: Value) {
    c.rep.violation(Violation {
        signature: format!("{which:?}: {}", pool::abstract_numbers(&class)),
        what,
        replay: json!({"codec": format!("{which:?}"), "stream": hex(input), "tag": c.tag, "detail": extra}),
    });
}

/// summary of one delivery, used to compare deliveries of valid streams and for accounting
#[derive(Debug, Clone, PartialEq, Eq)]
enum Out {
    Packet(String, u32),
    Publish(String, usize, u32),
    Chunk(usize, bool),
}

fn outs3(f: &Feed<Ev<c3::Packet, c3::Publish>>) -> Vec<Out> {
    f.events
        .iter()
        .map(|e| match e {
            Ev::Packet(p, n) => Out::Packet(format!("{p:?}"), *n),
            Ev::Publish(p, b, n) => Out::Publish(format!("{p:?}"), b.len(), *n),
            Ev::Chunk(b, eof) => Out::Chunk(b.len(), *eof),
        })
        .collect()
}
fn outs5(f: &Feed<Ev<c5::Packet, c5::Publish>>) -> Vec<Out> {
    f.events
        .iter()
        .map(|e| match e {
            Ev::Packet(p, n) => Out::Packet(format!("{p:?}"), *n),
            Ev::Publish(p, b, n) => Out::Publish(format!("{p:?}"), b.len(), *n),
            Ev::Chunk(b, eof) => Out::Chunk(b.len(), *eof),
        })
        .collect()
}

struct Delivered {
    outs: Vec<Out>,
    progress: Vec<(usize, usize)>,
    error: Option<DecodeError>,
    left: usize,
    /// declared payload sizes of Publish events, in order
    declared: Vec<u32>,
    /// re-encode stability failures
    unstable: Vec<String>,
}

fn deliver(which: Which, stream: &[u8], cuts: &[usize], max_size: u32, min_chunk: u32) -> Delivered {
    match which {
        Which::V3 => {
            let codec = c3::Codec::new();
            codec.set_max_size(max_size);
            codec.set_min_chunk_size(min_chunk);
            let f = libcodec::feed3(&codec, stream, cuts);
            let mut unstable = Vec::new();
            let mut declared = Vec::new();
            for e in &f.events {
                match e {
                    Ev::Packet(p, _) => {
                        let it = Item3::Packet(p.clone());
                        match libcodec::enc3(&c3::Codec::new(), &it) {
                            Ok(b) => {
                                let g = libcodec::feed3(&c3::Codec::new(), &b, &[]);
                                if g.error.is_some() || g.left != 0 || g.events.len() != 1 || !matches!(&g.events[0], Ev::Packet(q, _) if q == p) {
                                    unstable.push(format!("{p:?} re-encodes to {} which decodes to {:?} / {:?}", hex_short(&b), g.events.first(), g.error));
                                }
                            }
                            Err(e) => unstable.push(format!("accepted {p:?} cannot be re-encoded: {e:?}")),
                        }
                    }
                    Ev::Publish(p, _, _) => {
                        declared.push(p.payload_size);
                        if p.payload_size <= 64 {
                            let it = Item3::Publish(p.clone(), vec![7; p.payload_size as usize]);
                            match libcodec::enc3(&c3::Codec::new(), &it) {
                                Ok(b) => {
                                    let g = libcodec::feed3(&c3::Codec::new(), &b, &[]);
                                    if g.error.is_some() || !matches!(g.events.first(), Some(Ev::Publish(q, _, _)) if q == p) {
                                        unstable.push(format!("{p:?} re-encodes to {} which decodes to {:?} / {:?}", hex_short(&b), g.events.first(), g.error));
                                    }
                                }
                                Err(e) => unstable.push(format!("accepted {p:?} cannot be re-encoded: {e:?}")),
                            }
                        }
                    }
                    Ev::Chunk(..) => {}
                }
            }
            Delivered { outs: outs3(&f), progress: f.progress, error: f.error, left: f.left, declared, unstable }
        }
        Which::V5 => {
            let codec = c5::Codec::new();
            codec.set_max_inbound_size(max_size);
            codec.set_min_chunk_size(min_chunk);
            let f = libcodec::feed5(&codec, stream, cuts);
            let mut unstable = Vec::new();
            let mut declared = Vec::new();
            for e in &f.events {
                match e {
                    Ev::Packet(p, _) => {
                        let it = Item5::Packet(p.clone());
                        match libcodec::enc5(&c5::Codec::new(), &it) {
                            Ok(b) => {
                                let g = libcodec::feed5(&c5::Codec::new(), &b, &[]);
                                if g.error.is_some() || g.left != 0 || g.events.len() != 1 || !matches!(&g.events[0], Ev::Packet(q, _) if q == p) {
                                    unstable.push(format!("{p:?} re-encodes to {} which decodes to {:?} / {:?}", hex_short(&b), g.events.first(), g.error));
                                }
                            }
                            Err(e) => unstable.push(format!("accepted {p:?} cannot be re-encoded: {e:?}")),
                        }
                    }
                    Ev::Publish(p, _, _) => {
                        declared.push(p.payload_size);
                        if p.payload_size <= 64 {
                            let it = Item5::Publish(p.clone(), vec![7; p.payload_size as usize]);
                            match libcodec::enc5(&c5::Codec::new(), &it) {
                                Ok(b) => {
                                    let g = libcodec::feed5(&c5::Codec::new(), &b, &[]);
                                    if g.error.is_some() || !matches!(g.events.first(), Some(Ev::Publish(q, _, _)) if q == p) {
                                        unstable.push(format!("{p:?} re-encodes to {} which decodes to {:?} / {:?}", hex_short(&b), g.events.first(), g.error));
                                    }
                                }
                                Err(e) => unstable.push(format!("accepted {p:?} cannot be re-encoded: {e:?}")),
                            }
                        }
                    }
                    Ev::Chunk(..) => {}
                }
            }
            Delivered { outs: outs5(&f), progress: f.progress, error: f.error, left: f.left, declared, unstable }
        }
    }
}

/// Judge one delivery of `stream` (= candidate bytes, normally followed by the sentinel).
/// `sentinel` tells whether the last two bytes are the sentinel frame.
fn judge(c: &Ctx<'_>, which: Which, stream: &[u8], d: &Delivered, sentinel: bool, info: &Value) {
    let ver = if which == Which::V3 { Ver::V3 } else { Ver::V5 };
    let mut pos = 0usize; // start of the frame being reported
    let mut declared_it = d.declared.iter();
    let mut open: Option<(usize /*frame end*/, usize /*payload still owed*/)> = None;
    let mut accepted_frames = 0usize;
    let mut ends: Vec<usize> = Vec::new();
    for (k, o) in d.outs.iter().enumerate() {
        let (_fed, consumed) = d.progress[k];
        let hdr = refcodec::fixed_header(&stream[pos.min(stream.len())..]);
        let (rl, hl) = match hdr {
            Ok(Some((_fb, rl, hl))) => (rl as usize, hl),
            other => {
                vio(c, which, "item reported without a complete, valid fixed header".into(), format!("event {o:?} at stream offset {pos}, reference fixed header: {other:?}"), stream, info.clone());
                return;
            }
        };
        let end = pos + hl + rl;
        match o {
            Out::Packet(_, n) => {
                if open.is_some() {
                    vio(c, which, "packet reported inside an unfinished PUBLISH payload".into(), format!("{o:?}"), stream, info.clone());
                    return;
                }
                if *n as usize != rl || consumed != end {
                    vio(c, which, "bytes consumed differ from the frame reported".into(), format!("frame at {pos} has header {hl} + Remaining Length {rl} (ends at {end}); decoder reports size {n} and has consumed {consumed} bytes"), stream, info.clone());
                    return;
                }
                // must-reject list
                if let Err(DecErr::Malformed(reason)) = refcodec::decode(ver, &stream[pos..end]) {
                    if let Some(cat) = must_reject_category(ver, &reason) {
                        let kind = refcodec::model::type_name(stream[pos] >> 4);
                        vio(c, which, format!("accepts a {kind} frame that must be rejected ({cat})"), format!("reference decoder: {reason}; library returned {o:?}"), stream, info.clone());
                    } else {
                        c.rep.count("accepted_but_ref_rejects_open_category", 1);
                    }
                }
                accepted_frames += 1;
                ends.push(end);
                pos = end;
            }
            Out::Publish(_, first, n) => {
                if open.is_some() {
                    vio(c, which, "PUBLISH reported inside an unfinished PUBLISH payload".into(), format!("{o:?}"), stream, info.clone());
                    return;
                }
                let declared = *declared_it.next().unwrap() as usize;
                if *n as usize != rl || consumed > end || *first > declared {
                    vio(c, which, "bytes consumed differ from the frame reported".into(), format!("PUBLISH frame at {pos} ends at {end}; decoder reports size {n}, consumed {consumed}, first piece {first} of declared {declared}"), stream, info.clone());
                    return;
                }
                // header bytes = consumed - pos - first ; header + declared must equal frame
                let header = consumed - pos - first;
                if header + declared != hl + rl {
                    vio(c, which, "declared payload size contradicts the frame".into(), format!("PUBLISH frame at {pos}: {hl}+{rl} bytes, variable header {} bytes, declared payload {declared}", header - hl.min(header)), stream, info.clone());
                    return;
                }
                if let Err(DecErr::Malformed(reason)) = refcodec::decode(ver, &stream[pos..end.min(stream.len())]) {
                    if let Some(cat) = must_reject_category(ver, &reason) {
                        vio(c, which, format!("accepts a PUBLISH frame that must be rejected ({cat})"), format!("reference decoder: {reason}; library returned {o:?}"), stream, info.clone());
                    }
                }
                if *first == declared {
                    accepted_frames += 1;
                    ends.push(end);
                    pos = end;
                } else {
                    open = Some((end, declared - first));
                }
            }
            Out::Chunk(len, eof) => {
                let Some((end, owed)) = open else {
                    vio(c, which, "payload chunk without an open PUBLISH".into(), format!("{o:?}"), stream, info.clone());
                    return;
                };
                if *len > owed || consumed > end || (*eof != (*len == owed)) {
                    vio(c, which, "payload pieces contradict the declared size".into(), format!("chunk {len} eof={eof}, still owed {owed}, consumed {consumed}, frame ends {end}"), stream, info.clone());
                    return;
                }
                if *eof {
                    if consumed != end {
                        vio(c, which, "bytes consumed differ from the frame reported".into(), format!("final chunk: consumed {consumed}, frame ends {end}"), stream, info.clone());
                        return;
                    }
                    open = None;
                    accepted_frames += 1;
                    ends.push(end);
                    pos = end;
                } else {
                    open = Some((end, owed - len));
                }
            }
        }
    }
    for u in &d.unstable {
        vio(c, which, "accepted packet is not stable under re-encoding".into(), u.clone(), stream, info.clone());
    }
    // sentinel: if an accepted frame ends exactly where the sentinel starts, the sentinel must be
    // the next thing reported (a candidate whose Remaining Length swallows the sentinel is judged
    // by the accounting above, not here)
    if sentinel && d.error.is_none() && open.is_none() {
        let body = stream.len() - SENTINEL.len();
        if pos == body && accepted_frames > 0 {
            vio(c, which, "frame after an accepted frame is not decoded".into(), format!("all {accepted_frames} frames accepted, sentinel PINGREQ at {body} never reported; {} bytes left", d.left), stream, info.clone());
        } else if pos == stream.len() && ends.contains(&body) {
            match d.outs.last() {
                Some(Out::Packet(p, 0)) if p.contains("PingRequest") => c.rep.count("sentinel_decoded", 1),
                other => vio(c, which, "frame after an accepted frame decodes to something else".into(), format!("sentinel decoded as {other:?}"), stream, info.clone()),
            }
        }
    }
}

fn deliveries(rng: &mut Rng, len: usize, exhaustive_cuts: bool) -> Vec<Vec<usize>> {
    let mut v: Vec<Vec<usize>> = vec![vec![]];
    if len > 1 {
        v.push((1..len).collect()); // byte at a time
        if exhaustive_cuts && len <= 96 {
            for c in 1..len {
                v.push(vec![c]);
            }
        } else {
            for _ in 0..6 {
                v.push(vec![1 + rng.usize(len - 1)]);
            }
        }
        for _ in 0..3 {
            let k = 1 + rng.usize(4);
            let mut cs: Vec<usize> = (0..k).map(|_| 1 + rng.usize(len - 1)).collect();
            cs.sort_unstable();
            cs.dedup();
            v.push(cs);
        }
    }
    v
}

fn run_input(c: &Ctx<'_>, rng: &mut Rng, which: Which, candidate: &[u8], with_sentinel: bool, exhaustive_cuts: bool, info: Value) {
    let mut stream = candidate.to_vec();
    if with_sentinel {
        stream.extend_from_slice(&SENTINEL);
    }
    c.rep.distinct(hash_bytes(&stream) ^ which as u64);
    let frame_len = match refcodec::fixed_header(candidate) {
        Ok(Some((_, rl, hl))) => (rl as usize + hl) as u32,
        _ => 0,
    };
    let mut first: Option<(Vec<Out>, bool)> = None;
    for cuts in deliveries(rng, stream.len(), exhaustive_cuts) {
        let (max_size, min_chunk) = if rng.chance(1, 3) {
            (*rng.pick(&[0u32, frame_len.saturating_sub(1), frame_len, frame_len + 1, 7]), *rng.pick(&[0u32, 1, 4, 1024]))
        } else {
            (0, 0)
        };
        c.rep.eval();
        let r = pool::catch(|| deliver(which, &stream, &cuts, max_size, min_chunk));
        match r {
            Err(p) => {
                c.rep.count("panics", 1);
                c.rep.violation(Violation {
                    signature: format!("{which:?}: {}", p.signature()),
                    what: format!("decoder panicked: {} at {} (cuts {cuts:?}, max_size {max_size}, min_chunk {min_chunk})", p.msg, p.location),
                    replay: json!({"codec": format!("{which:?}"), "stream": hex(&stream), "cuts": cuts, "max_size": max_size, "min_chunk": min_chunk, "tag": c.tag, "detail": info}),
                });
                return;
            }
            Ok(d) => {
                let info2 = json!({"cuts": cuts, "max_size": max_size, "min_chunk": min_chunk, "input": info});
                judge(c, which, &stream, &d, with_sentinel, &info2);
                if d.error.is_some() {
                    c.rep.count("deliveries_rejected", 1);
                } else {
                    c.rep.count("deliveries_without_error", 1);
                }
                if max_size == 0 && min_chunk == 0 {
                    // informational: do different fragmentations of a malformed stream agree?
                    let key: Vec<Out> = d.outs.iter().filter(|o| matches!(o, Out::Packet(..))).cloned().collect();
                    match &first {
                        None => first = Some((key, d.error.is_some())),
                        Some((k0, e0)) => {
                            if *k0 != key || *e0 != d.error.is_some() {
                                c.rep.count("malformed_fragmentation_dependent_outcome(info)", 1);
                            }
                        }
                    }
                }
            }
        }
    }
}

// ------------------------------------------------------------------------ input construction

fn valid_frame(rng: &mut Rng, which: Which) -> (Vec<u8>, R) {
    let cfg = GenCfg { big_strings: false, max_payload: 80, max_user_props: 2 };
    loop {
        let mask = rng.next();
        match which {
            Which::V3 => {
                let k = rng.usize(14);
                let it = genpkt::gen_v3(rng, k, mask, &cfg);
                let r = match &it {
                    Item3::Packet(p) => map::v3_packet(p),
                    Item3::Publish(p, pl) => map::v3_publish(p, pl),
                };
                if let Ok(b) = refcodec::encode(Ver::V3, &r) {
                    if b.len() <= 400 {
                        return (b, r);
                    }
                }
            }
            Which::V5 => {
                let k = rng.usize(15);
                let it = genpkt::gen_v5(rng, k, mask, &cfg);
                let r = match &it {
                    Item5::Packet(p) => map::v5_packet(p),
                    Item5::Publish(p, pl) => map::v5_publish(p, pl),
                };
                if let Ok(b) = refcodec::encode(Ver::V5, &r) {
                    if b.len() <= 400 {
                        return (b, r);
                    }
                }
            }
        }
    }
}

fn props_mut(r: &mut R) -> Option<&mut Vec<Prop>> {
    match r {
        R::Connect { props, .. } | R::ConnAck { props, .. } | R::Publish { props, .. } | R::Subscribe { props, .. } | R::SubAck { props, .. } | R::Unsubscribe { props, .. } | R::UnsubAck { props, .. } => Some(props),
        R::PubAck { props, code, .. } | R::PubRec { props, code, .. } | R::PubRel { props, code, .. } | R::PubComp { props, code, .. } => {
            if code.is_none() {
                *code = Some(0);
            }
            Some(props.get_or_insert_with(Vec::new))
        }
        R::Disconnect { props, code } | R::Auth { props, code } => {
            if code.is_none() {
                *code = Some(0);
            }
            Some(props.get_or_insert_with(Vec::new))
        }
        _ => None,
    }
}

/// model-level hostile variants; each must be rejected (category returned)
fn hostile_model(rng: &mut Rng, which: Which, r: &R) -> Option<(Vec<u8>, &'static str)> {
    let ver = if which == Which::V3 { Ver::V3 } else { Ver::V5 };
    let mut m = r.clone();
    let cat: &'static str = match rng.below(7) {
        0 => {
            match &mut m {
                R::Publish { pid: Some(p), .. } => *p = 0,
                R::PubAck { pid, .. } | R::PubRec { pid, .. } | R::PubRel { pid, .. } | R::PubComp { pid, .. } | R::Subscribe { pid, .. } | R::SubAck { pid, .. } | R::Unsubscribe { pid, .. } | R::UnsubAck { pid, .. } => *pid = 0,
                _ => return None,
            }
            "zero packet identifier"
        }
        1 => {
            match &mut m {
                R::Publish { qos, pid, .. } => {
                    *qos = 3;
                    if pid.is_none() {
                        *pid = Some(9);
                    }
                }
                R::Subscribe { filters, .. } if !filters.is_empty() => filters[0].1 |= 3,
                R::Connect { will: Some(w), .. } => w.qos = 3,
                _ => return None,
            }
            "QoS 3"
        }
        2 if which == Which::V5 => {
            // Subscription Identifier may repeat in PUBLISH only; User Property may always repeat
            let is_publish = matches!(m, R::Publish { .. });
            let p = props_mut(&mut m)?;
            let once: Vec<Prop> = p.iter().filter(|x| x.id() != 0x26 && (x.id() != 0x0B || !is_publish)).cloned().collect();
            if once.is_empty() {
                return None;
            }
            let dup = rng.pick(&once).clone();
            let at = rng.usize(p.len() + 1);
            p.insert(at, dup);
            "repeated once-only property"
        }
        3 if which == Which::V5 => {
            let t = m.type_nibble();
            let p = props_mut(&mut m)?;
            let bad = if rng.bool() {
                Prop::Byte(*rng.pick(&[0x00u8, 0x04, 0x05, 0x0A, 0x10, 0x14, 0x1B, 0x20, 0x2B, 0x7F, 0xFE]), 1)
            } else {
                // a real property that this packet type must not carry
                let all = [Prop::U16(0x23, 3), Prop::Byte(0x24, 1), Prop::U32(0x18, 5), Prop::U16(0x13, 9), Prop::Byte(0x01, 1), Prop::U32(0x02, 7)];
                let allowed = refcodec::allowed_props(t, false);
                let cands: Vec<&Prop> = all.iter().filter(|x| !allowed.contains(&x.id())).collect();
                if cands.is_empty() {
                    return None;
                }
                (*rng.pick(&cands)).clone()
            };
            let at = rng.usize(p.len() + 1);
            p.insert(at, bad);
            "unknown property"
        }
        4 if which == Which::V5 => {
            let t = m.type_nibble();
            let valid = refcodec::valid_reason_codes(Ver::V5, t);
            let bad = loop {
                let b = rng.below(256) as u8;
                if !valid.contains(&b) {
                    break b;
                }
            };
            match &mut m {
                R::ConnAck { code, .. } => *code = bad,
                R::PubAck { code, .. } | R::PubRec { code, .. } | R::PubRel { code, .. } | R::PubComp { code, .. } | R::Disconnect { code, .. } | R::Auth { code, .. } => *code = Some(bad),
                R::SubAck { codes, .. } | R::UnsubAck { codes, .. } if !codes.is_empty() => {
                    let i = rng.usize(codes.len());
                    codes[i] = bad;
                }
                _ => return None,
            }
            "unknown reason code"
        }
        5 => {
            // invalid UTF-8: patched after encoding
            let b = refcodec::encode(ver, &m).ok()?;
            let lay = refcodec::layout(ver, &b).ok()?;
            let strs: Vec<_> = lay.iter().filter(|f| f.kind == FieldKind::StrLen && u16::from_be_bytes([b[f.off], b[f.off + 1]]) > 0).collect();
            if strs.is_empty() {
                return None;
            }
            let f = rng.pick(&strs);
            let len = u16::from_be_bytes([b[f.off], b[f.off + 1]]) as usize;
            let mut b2 = b.clone();
            let at = f.off + 2 + rng.usize(len);
            b2[at] = *rng.pick(&[0xFFu8, 0xC0, 0x80, 0xF8]);
            return Some((b2, "invalid UTF-8"));
        }
        _ => {
            // string/binary length running past the end of the packet
            let b = refcodec::encode(ver, &m).ok()?;
            let lay = refcodec::layout(ver, &b).ok()?;
            let lens: Vec<_> = lay.iter().filter(|f| matches!(f.kind, FieldKind::StrLen | FieldKind::BinLen)).collect();
            if lens.is_empty() {
                return None;
            }
            let f = rng.pick(&lens);
            let mut b2 = b.clone();
            let v = (b.len() as u16).saturating_add(1 + rng.below(50) as u16);
            b2[f.off..f.off + 2].copy_from_slice(&v.to_be_bytes());
            return Some((b2, "inner length contradicts Remaining Length"));
        }
    };
    refcodec::encode(ver, &m).ok().map(|b| (b, cat))
}

/// byte-level mutations guided by the layout map
fn mutate_bytes(rng: &mut Rng, ver: Ver, frame: &[u8], other: &[u8]) -> Vec<(Vec<u8>, String)> {
    let mut out = Vec::new();
    let Ok(lay) = refcodec::layout(ver, frame) else { return out };
    for f in &lay {
        match f.kind {
            FieldKind::RemainingLength | FieldKind::PropertyLength | FieldKind::VarIntValue => {
                let Ok(Some((v, w))) = refcodec::decode_varint(&frame[f.off..]) else { continue };
                for nv in [v.wrapping_sub(1), v + 1, v.wrapping_sub(2), v + 2, 0, v.wrapping_sub(frame.len() as u32), 127, 128, 16384, 268_435_455] {
                    if nv == v || nv > 268_435_455 {
                        continue;
                    }
                    let mut b = frame[..f.off].to_vec();
                    b.extend_from_slice(&refcodec::encode_varint(nv));
                    b.extend_from_slice(&frame[f.off + w..]);
                    out.push((b, format!("{:?}@{}:{}->{}", f.kind, f.off, v, nv)));
                }
                // non-minimal / over-long encodings of the same value
                let mut b = frame[..f.off].to_vec();
                b.extend_from_slice(&[0x80 | (v & 0x7f) as u8, 0x80 | ((v >> 7) & 0x7f) as u8, 0x80 | ((v >> 14) & 0x7f) as u8, 0x80 | ((v >> 21) & 0x7f) as u8, 0x00]);
                b.extend_from_slice(&frame[f.off + w..]);
                out.push((b, format!("{:?}@{}:5-byte varint", f.kind, f.off)));
            }
            FieldKind::StrLen | FieldKind::BinLen | FieldKind::ProtoNameLen => {
                let v = u16::from_be_bytes([frame[f.off], frame[f.off + 1]]);
                for nv in [v.wrapping_sub(1), v.wrapping_add(1), v.wrapping_sub(2), v.wrapping_add(2), 0, 0xFFFF, v.wrapping_sub(frame.len() as u16)] {
                    if nv == v {
                        continue;
                    }
                    let mut b = frame.to_vec();
                    b[f.off..f.off + 2].copy_from_slice(&nv.to_be_bytes());
                    out.push((b, format!("{:?}@{}:{}->{}", f.kind, f.off, v, nv)));
                }
            }
            FieldKind::PacketId => {
                let mut b = frame.to_vec();
                b[f.off] = 0;
                b[f.off + 1] = 0;
                out.push((b, format!("PacketId@{}->0", f.off)));
            }
            FieldKind::PropertyId | FieldKind::ReasonCode | FieldKind::SubOptions | FieldKind::ConnectFlags | FieldKind::AckFlags | FieldKind::ProtoLevel | FieldKind::FirstByte => {
                for _ in 0..2 {
                    let mut b = frame.to_vec();
                    b[f.off] = rng.below(256) as u8;
                    out.push((b, format!("{:?}@{} random byte", f.kind, f.off)));
                }
            }
        }
    }
    // bit flips: every bit of the first 16 bytes, random bits elsewhere
    for i in 0..frame.len().min(16) {
        for bit in 0..8 {
            let mut b = frame.to_vec();
            b[i] ^= 1 << bit;
            out.push((b, format!("flip {i}.{bit}")));
        }
    }
    for _ in 0..8 {
        if frame.len() > 16 {
            let i = 16 + rng.usize(frame.len() - 16);
            let mut b = frame.to_vec();
            b[i] ^= 1 << rng.below(8);
            out.push((b, format!("flip {i}")));
        }
    }
    // splices at field boundaries
    if let Ok(lay2) = refcodec::layout(ver, other) {
        for _ in 0..4 {
            let a = rng.pick(&lay).off;
            let b2 = rng.pick(&lay2).off;
            let mut b = frame[..a].to_vec();
            b.extend_from_slice(&other[b2..]);
            out.push((b, format!("splice {a}|{b2}")));
        }
    }
    out
}

fn sniff(buf: &[u8]) -> Result<Option<u8>, DecodeError> {
    #[cfg(feature = "hooks")]
    {
        let mut b = BytesMut::from(buf);
        let r = ntex_mqtt::verif::sniff_version(&mut b);
        assert!(b.as_ref() == buf, "sniffer modified the buffer");
        r
    }
    #[cfg(not(feature = "hooks"))]
    {
        let _ = buf;
        Ok(None)
    }
}

/// what the statement allows the sniffer to answer for a complete prefix
fn sniff_check(c: &Ctx<'_>, buf: &[u8]) {
    c.rep.eval();
    let r = match pool::catch(|| sniff(buf)) {
        Ok(r) => r,
        Err(p) => {
            c.rep.violation(Violation { signature: format!("Sniffer: {}", p.signature()), what: format!("sniffer panicked: {} at {}", p.msg, p.location), replay: json!({"codec": "sniffer", "stream": hex(buf)}) });
            return;
        }
    };
    c.rep.count("sniffer_calls", 1);
    let hdr = refcodec::fixed_header(buf);
    if let Ok(Some(v)) = r {
        // justified only by CONNECT + "MQTT" + that level
        let ok = matches!(hdr, Ok(Some((0x10, _, hl))) if buf.len() >= hl + 7 && buf[hl..hl + 6] == [0, 4, b'M', b'Q', b'T', b'T'] && buf[hl + 6] == v && (v == 4 || v == 5));
        c.rep.count("sniffer_versions_reported", 1);
        if !ok {
            vio(c, Which::V5, "sniffer reports a protocol version the bytes do not carry".into(), format!("sniffer says level {v} for {}", hex_short(buf)), buf, json!("sniffer"));
        }
    }
    if let Ok(Some((fb, _, hl))) = hdr {
        if fb == 0x10 && buf.len() >= hl + 7 && buf[hl..hl + 6] == [0, 4, b'M', b'Q', b'T', b'T'] {
            let lvl = buf[hl + 6];
            let want_some = lvl == 4 || lvl == 5;
            match (&r, want_some) {
                (Ok(Some(v)), true) if *v == lvl => {}
                (Err(_), false) => {}
                other => vio(c, Which::V5, "sniffer misjudges a complete CONNECT prefix".into(), format!("level byte {lvl}: sniffer answered {:?}", other.0), buf, json!("sniffer")),
            }
        } else if fb != 0x10 && r.is_ok() {
            vio(c, Which::V5, "sniffer does not refuse a first packet other than CONNECT".into(), format!("first byte {fb:#04x}: sniffer answered {r:?}"), buf, json!("sniffer"));
        }
    }
}

pub fn run(opts: &Opts) -> i32 {
    let rep = Report::new(
        opts,
        "exploration",
        "every byte string up to length 3 (and [first byte, remaining length <= 2, body] frames) for the v3 codec, the \
         v5 codec and the version sniffer; plus valid frames from the structure-aware generator mutated at model level \
         (must-reject categories of the statement) and at byte level using the reference layout map (length/count \
         fields at every nesting level, truncation at every offset, bit flips of the first 16 bytes, splices), each \
         delivered whole, byte-at-a-time, at every single cut and at random cut sets under varied max-size / \
         min-chunk settings. distinct = distinct (codec, byte stream)",
    );
    if let Some(p) = &opts.replay {
        return replay(&rep_move(rep), p);
    }
    let quick = opts.tier == Tier::Quick;

    // ---- 1. exhaustive short strings (chunked by the first two bytes)
    // (the interpreter stage samples 256 of the 65536 chunks, thinned further by VERIF_INNER)
    let interp = std::env::var("VERIF_SANITIZER").as_deref() == Ok("miri");
    let max_len = 3usize;
    pool::par_for(if interp { 256 } else { 65536 }, None, |pre| {
        let pre = if interp { pre * 257 } else { pre };
        let c = Ctx { rep: &rep, tag: format!("short/{pre:04x}") };
        let b0 = (pre >> 8) as u8;
        let b1 = (pre & 0xff) as u8;
        let mut rng = Rng::for_case(opts.seed, "C02-short", pre);
        let mut inputs: Vec<Vec<u8>> = Vec::new();
        if b1 == 0 {
            inputs.push(vec![b0]);
        }
        inputs.push(vec![b0, b1]);
        for b2 in 0..=255u8 {
            inputs.push(vec![b0, b1, b2]);
        }
        // [b0, rl<=2, body]: b1 is the remaining length
        if b1 == 2 {
            for x in 0..=255u8 {
                for y in [0u8, 1, 2, 0x7f, 0x80, 0xff, x] {
                    inputs.push(vec![b0, 2, x, y]);
                }
            }
        }
        let _ = max_len;
        for (ii, inp) in inputs.iter().enumerate() {
            if !pool::inner_keep(ii) {
                continue;
            }
            for which in [Which::V3, Which::V5] {
                // whole and byte-at-a-time, no sentinel (prefix space)
                for cuts in [vec![], (1..inp.len()).collect::<Vec<_>>()] {
                    rep.eval();
                    match pool::catch(|| deliver(which, inp, &cuts, 0, 0)) {
                        Ok(d) => judge(&c, which, inp, &d, false, &json!({"short": hex(inp)})),
                        Err(p) => rep.violation(Violation { signature: format!("{which:?}: {}", p.signature()), what: format!("decoder panicked on {}: {} at {}", hex(inp), p.msg, p.location), replay: json!({"codec": format!("{which:?}"), "stream": hex(inp), "cuts": cuts}) }),
                    }
                }
            }
            sniff_check(&c, inp);
            rep.count("short_inputs", 1);
        }
        if pre % 4096 == 0 {
            rep.sample(6, || json!({"short_input": hex(&inputs[inputs.len() / 2])}));
        }
        let _ = &mut rng;
        After::Continue
    });
    if !interp {
        for l in 1..=3u32 {
            rep.distinct_many((0..(1u64 << (8 * l)).min(1 << 16)).map(|x| pool::mix(l as u64, x)));
        }
    }

    // ---- 2. structure-aware mutations
    let n_frames = ((if quick { 3_000.0 } else { 120_000.0 }) * opts.scale) as u64;
    pool::par_for(n_frames, None, |i| {
        let mut rng = Rng::for_case(opts.seed, "C02-mut", i);
        let c = Ctx { rep: &rep, tag: format!("mut/{i}") };
        let which = if rng.bool() { Which::V3 } else { Which::V5 };
        let ver = if which == Which::V3 { Ver::V3 } else { Ver::V5 };
        let (frame, model) = valid_frame(&mut rng, which);
        let (other, _) = valid_frame(&mut rng, which);
        // the valid frame itself (all cuts) — also feeds the sentinel logic
        run_input(&c, &mut rng, which, &frame, true, true, json!({"valid": map::brief(&model)}));
        rep.count("valid_frames", 1);
        // truncation at every offset: no sentinel, nothing but need-more (or a PUBLISH announcement) may come out
        for cut in 1..frame.len() {
            let d = pool::catch(|| deliver(which, &frame[..cut], &[], 0, 0));
            rep.eval();
            match d {
                Ok(d) => {
                    if d.outs.iter().any(|o| matches!(o, Out::Packet(..))) || d.error.is_some() {
                        vio(&c, which, "strict prefix of a valid frame is not classified as need-more".into(), format!("prefix {cut}/{} of {}: outs {:?} err {:?}", frame.len(), map::brief(&model), d.outs, d.error), &frame[..cut], json!("truncation"));
                    }
                    judge(&c, which, &frame[..cut], &d, false, &json!("truncation"));
                    rep.count("truncations", 1);
                }
                Err(p) => rep.violation(Violation { signature: format!("{which:?}: {}", p.signature()), what: format!("decoder panicked on truncated frame: {}", p.msg), replay: json!({"codec": format!("{which:?}"), "stream": hex(&frame[..cut])}) }),
            }
        }
        // model-level hostile variants
        for _ in 0..6 {
            if let Some((b, cat)) = hostile_model(&mut rng, which, &model) {
                match refcodec::decode(ver, &b) {
                    Err(DecErr::Malformed(reason)) if must_reject_category(ver, &reason).is_some() => {
                        rep.count(&format!("hostile[{cat}]"), 1);
                        run_input(&c, &mut rng, which, &b, true, false, json!({"hostile": cat, "from": map::brief(&model)}));
                    }
                    _ => rep.count("hostile_variant_not_in_must_reject_list(skipped)", 1),
                }
            }
        }
        // byte-level mutations
        let muts = mutate_bytes(&mut rng, ver, &frame, &other);
        for (b, how) in muts {
            rep.count("byte_mutations", 1);
            run_input(&c, &mut rng, which, &b, true, b.len() <= 48, json!({"mutation": how, "from": map::brief(&model)}));
        }
        // sniffer on every prefix of CONNECT-like inputs and mutated first bytes
        for cut in 1..frame.len().min(20) {
            sniff_check(&c, &frame[..cut]);
        }
        if i < 4 {
            rep.sample(12, || json!({"valid_frame": map::brief(&model), "bytes": hex_short(&frame)}));
        }
        After::Continue
    });

    // ---- 3. inbound maximum is enforced as soon as the fixed header is seen
    for which in [Which::V3, Which::V5] {
        for max in [1u32, 2, 10, 127, 128, 1000, 16383, 16384, 100_000] {
            for rl in [max.saturating_sub(1), max, max + 1, max + 2, max * 2 + 5, 268_435_455] {
                for first in [0x10u8, 0x30, 0x32, 0x40, 0x82, 0xC0, 0xE0] {
                    if !pool::inner_keep((max as usize).wrapping_mul(31) + rl as usize + first as usize) {
                        continue;
                    }
                    let mut hdr = vec![first];
                    hdr.extend_from_slice(&refcodec::encode_varint(rl));
                    rep.eval();
                    let d = deliver(which, &hdr, &[], max, 0);
                    rep.count("max_size_probes", 1);
                    let rejected = matches!(d.error, Some(DecodeError::MaxSizeExceeded { .. }));
                    if rl > max && !rejected {
                        let c = Ctx { rep: &rep, tag: "maxsize".into() };
                        vio(&c, which, "over-limit frame not rejected at the fixed header".into(), format!("max {max}, Remaining Length {rl}, first byte {first:#04x}: outs {:?} err {:?}", d.outs, d.error), &hdr, json!({"max": max}));
                    }
                    if (rl as u64 + 5) <= max as u64 && rejected {
                        let c = Ctx { rep: &rep, tag: "maxsize".into() };
                        vio(&c, which, "frame within the limit rejected for size".into(), format!("max {max}, Remaining Length {rl}"), &hdr, json!({"max": max}));
                    }
                }
            }
        }
    }

    rep.assume("reference codec: framing, layout map and the must-reject verdict (restricted to the categories the statement lists)");
    rep.assume("rejection is demanded only for the categories in the statement; non-minimal varints, reserved flag bits etc. are left open");
    rep.require("short_inputs", 1_000_000);
    rep.require("byte_mutations", 10_000);
    rep.require("sentinel_decoded", 1_000);
    rep.require("truncations", 10_000);
    if cfg!(feature = "hooks") {
        rep.require("sniffer_versions_reported", 100);
    }
    rep.finish()
}

fn rep_move(r: Report) -> Report {
    r
}

fn replay(rep: &Report, path: &std::path::Path) -> i32 {
    let v: Value = serde_json::from_str(&std::fs::read_to_string(path).expect("replay file")).expect("json");
    let r = &v["replay"];
    let stream = unhex(r["stream"].as_str().unwrap_or(""));
    let cuts: Vec<usize> = r["cuts"].as_array().map(|a| a.iter().filter_map(|x| x.as_u64().map(|x| x as usize)).collect()).unwrap_or_default();
    let codec = r["codec"].as_str().unwrap_or("V5");
    println!("replaying {codec} stream {} cuts {cuts:?}", hex_short(&stream));
    if codec == "sniffer" {
        let c = Ctx { rep, tag: "replay".into() };
        sniff_check(&c, &stream);
    } else {
        let which = if codec == "V3" { Which::V3 } else { Which::V5 };
        let c = Ctx { rep, tag: "replay".into() };
        let mut rng = Rng::new(1);
        let ms = r["max_size"].as_u64().unwrap_or(0) as u32;
        let mc = r["min_chunk"].as_u64().unwrap_or(0) as u32;
        match pool::catch(|| deliver(which, &stream, &cuts, ms, mc)) {
            Ok(d) => {
                println!("  outs: {:?}\n  error: {:?} left: {}", d.outs, d.error, d.left);
                judge(&c, which, &stream, &d, stream.ends_with(&SENTINEL), &json!("replay"));
                let body = if stream.ends_with(&SENTINEL) { &stream[..stream.len() - 2] } else { &stream[..] };
                run_input(&c, &mut rng, which, body, stream.ends_with(&SENTINEL), true, json!("replay"));
            }
            Err(p) => {
                println!("  panic: {} at {}", p.msg, p.location);
                rep.violation(Violation { signature: p.signature(), what: p.msg, replay: json!({}) });
            }
        }
    }
    if rep.violation_count() > 0 {
        println!("VIOLATION property=C02 replay={}", path.display());
        1
    } else {
        println!("replay: no violation");
        0
    }
}
