#!/bin/bash
# tools/sanitize.sh <ID> — sanitizer stages of the thorough tier for one property.
#
# The same check code as the native run is executed on a sample of its cases (VERIF_STRIDE /
# VERIF_SHARD select every k-th case by hash) under
#   * Miri (strict: pure codec checks; relaxed aliasing model for connection-level checks, because
#     the dependency ntex-rt violates Stacked/Tree Borrows on every spawned task),
#   * AddressSanitizer (nightly, -Zsanitizer=address).
# Result: /verif/out/sanit/<ID>.summary.json (merged into the evidence file by ./check) and
# exit code 0 = no report, 1 = a sanitizer report (UB / ASan error / panic under the sanitizer),
# 2 = stage could not run (inconclusive; never a violation).
set -u
ID=$1
SEED=${VERIF_SEED:-1}
OUT=/verif/out/sanit
mkdir -p "$OUT"
export CARGO_NET_OFFLINE=true CARGO_TERM_COLOR=never
cd /verif/harness || exit 2
SHARDS=${VERIF_SANIT_SHARDS:-16}
BUDGET=${VERIF_SANIT_BUDGET:-540}     # seconds per shard process

# property -> "tool:N[:inner]" list. For the Miri stages N = cases per parallel loop and shard
# (VERIF_TAKE, picked by hash), for ASan N = stride (every N-th case by hash).
case "$ID" in
  C01) STAGES="miri:5" ;;
  C02) STAGES="miri:3:64 asan:4" ;;
  C09) STAGES="miri:4 asan:2" ;;
  C10) STAGES="miri:1 asan:4" ;;
  C18) STAGES="miri:8" ;;
  C03) STAGES="mirirelaxed:60 asan:2" ;;
  C07) STAGES="mirirelaxed:60 asan:1" ;;
  C15) STAGES="mirirelaxed:30 asan:1" ;;
  C16) STAGES="mirirelaxed:25 asan:4" ;;
  C04|C06|C08|C11|C12|C14) STAGES="asan:2" ;;
  *) STAGES="" ;;
esac
[ -z "$STAGES" ] && { echo '{"stages": []}' > "$OUT/$ID.summary.json"; exit 0; }

rc_all=0
summary="["
for st in $STAGES; do
  tool=$(echo $st | cut -d: -f1); stride=$(echo $st | cut -d: -f2); inner=$(echo $st | cut -d: -f3); inner=${inner:-1}
  t0=$(date +%s)
  rm -f "$OUT/$ID-$tool-"*.json "$OUT/$ID-$tool-"*.log
  case "$tool" in
    miri|mirirelaxed)
      FLAGS="-Zmiri-disable-isolation"
      [ "$tool" = mirirelaxed ] && FLAGS="$FLAGS -Zmiri-disable-stacked-borrows -Zmiri-ignore-leaks"
      export MIRIFLAGS="$FLAGS"
      export CARGO_TARGET_DIR=/verif/out/target-miri
      # build once (and make sure the interpreter works at all)
      if ! VERIF_SANITIZER=miri timeout 1500 cargo +nightly miri run --offline --features hooks -- noop > "$OUT/$ID-$tool-build.log" 2>&1; then
        echo "sanitize: miri build failed (see $OUT/$ID-$tool-build.log)"; rc_all=2
        summary="$summary{\"tool\":\"$tool\",\"status\":\"could not build\"},"; continue
      fi
      RUN="cargo +nightly miri run --offline --features hooks --"
      SANNAME=miri
      ;;
    asan)
      export RUSTFLAGS="-Zsanitizer=address -Cforce-frame-pointers=yes"
      export CARGO_TARGET_DIR=/verif/out/target-asan
      if ! cargo +nightly build --offline --target x86_64-unknown-linux-gnu --profile verif --features hooks > "$OUT/$ID-$tool-build.log" 2>&1; then
        echo "sanitize: asan build failed (see $OUT/$ID-$tool-build.log)"; rc_all=2
        summary="$summary{\"tool\":\"asan\",\"status\":\"could not build\"},"; unset RUSTFLAGS; continue
      fi
      unset RUSTFLAGS
      RUN="/verif/out/target-asan/x86_64-unknown-linux-gnu/verif/mqtt-verif"
      SANNAME=asan
      # leak detection off: the harness deliberately ends scenarios with parked tasks
      export ASAN_OPTIONS="detect_leaks=0:halt_on_error=1:abort_on_error=0:symbolize=1"
      ;;
  esac
  pids=""
  nsh=$SHARDS
  if [ "$tool" = asan ]; then
    [ "$stride" -lt "$SHARDS" ] && nsh=$stride
    [ "$nsh" -lt 1 ] && nsh=1
    SAMPLING="VERIF_STRIDE=$stride"
  else
    # interpreter stages: N cases per loop and shard; VERIF_STRIDE only carries the shard count
    SAMPLING="VERIF_TAKE=$stride VERIF_STRIDE=$SHARDS"
  fi
  for sh in $(seq 0 $((nsh-1))); do
    ( cd /verif/harness && env VERIF_SANITIZER=$SANNAME $SAMPLING VERIF_INNER=$inner VERIF_SHARD=$sh VERIF_JOBS=1 VERIF_SEED=$SEED \
        timeout $BUDGET $RUN $ID --tier quick > "$OUT/$ID-$tool-$sh.log" 2>&1; echo $? > "$OUT/$ID-$tool-$sh.rc" ) &
    pids="$pids $!"
  done
  wait $pids
  evals=0; ok=0; timeouts=0; reports=0; viol=0
  for sh in $(seq 0 $((nsh-1))); do
    rc=$(cat "$OUT/$ID-$tool-$sh.rc" 2>/dev/null || echo 99)
    log="$OUT/$ID-$tool-$sh.log"
    e=$(grep -oE "^$ID quick: evaluations=[0-9]+" "$log" | grep -oE "[0-9]+$" | tail -1)
    evals=$((evals + ${e:-0}))
    if grep -qE "error: Undefined Behavior|ERROR: AddressSanitizer|error: unsupported operation|error: abnormal termination" "$log"; then
      reports=$((reports+1)); echo "SANITIZER-REPORT property=$ID tool=$tool log=$log"; grep -m1 -E "error: Undefined Behavior|ERROR: AddressSanitizer|error: unsupported operation|error: abnormal termination" "$log"
    elif [ "$rc" = 124 ]; then timeouts=$((timeouts+1))
    elif [ "$rc" = 1 ]; then viol=$((viol+1)); echo "SANITIZER-STAGE-VIOLATION property=$ID tool=$tool log=$log"
    elif [ "$rc" = 0 ]; then ok=$((ok+1))
    else timeouts=$((timeouts+1)); fi
  done
  t1=$(date +%s)
  status="clean"
  [ $reports -gt 0 ] && { status="report"; rc_all=1; }
  [ $viol -gt 0 ] && { status="violation"; rc_all=1; }
  [ $ok -eq 0 ] && [ $reports -eq 0 ] && [ $viol -eq 0 ] && { status="no shard finished"; [ $rc_all -eq 0 ] && rc_all=2; }
  echo "sanitize $ID $tool: stride=$stride shards=$nsh finished=$ok timed_out=$timeouts reports=$reports violations=$viol evaluations=$evals wall=$((t1-t0))s"
  summary="$summary{\"tool\":\"$tool\",\"flags\":\"${MIRIFLAGS:-}${RUSTFLAGS:-}\",\"stride\":$stride,\"shards\":$nsh,\"shards_finished\":$ok,\"shards_timed_out\":$timeouts,\"sanitizer_reports\":$reports,\"violations\":$viol,\"evaluations\":$evals,\"wall_s\":$((t1-t0)),\"status\":\"$status\"},"
  unset MIRIFLAGS
done
summary="${summary%,}]"
echo "{\"property\": \"$ID\", \"stages\": $summary}" > "$OUT/$ID.summary.json"
exit $rc_all
