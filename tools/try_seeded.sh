#!/bin/bash
# try_seeded.sh <ID> [tier] — apply each /tmp/mut/<ID>/MUTATION/patchN.diff to /repo, run the check, undo
id=$1; tier=${2:-quick}
cd /verif
for p in ${MUTBASE:-/tmp/mut}/$id/MUTATION/patch*.diff; do
  [ -f "$p" ] || continue
  n=$(basename $p .diff | sed 's/patch//')
  git -C /repo checkout -q -- . 
  if ! git -C /repo apply "$p" 2>/tmp/apply.err; then echo "$id m$n: patch does not apply: $(head -1 /tmp/apply.err)"; continue; fi
  out=$(./check $id --tier $tier 2>&1); rc=$?
  echo "== $id m$n rc=$rc :: $(echo "$out" | grep -E "^$id " | tail -1)"
  echo "$out" | grep -E "signature:" | sort | uniq -c | sort -rn | head -4
  git -C /repo checkout -q -- .
done
git -C /repo status --short | head -3
