#!/bin/bash
# try_one.sh <patch> <check id>... — apply one patch to /repo, run the quick tier of the given checks, undo
p=$1; shift
cd /verif
git -C /repo checkout -q -- .
if ! git -C /repo apply "$p" 2>/tmp/apply.err; then echo "patch does not apply: $(head -1 /tmp/apply.err)"; exit 3; fi
for c in "$@"; do
  out=$(./check $c --tier ${TIER:-quick} 2>&1); rc=$?
  echo "== $(basename $(dirname $(dirname $p)))/$(basename $p) vs $c rc=$rc :: $(echo "$out" | grep -E "^$c " | tail -1)"
  echo "$out" | grep -E "signature:" | sort | uniq -c | sort -rn | head -${SIGS:-3}
done
git -C /repo checkout -q -- .
