#!/bin/bash
# confirm3.sh <worker> <ID>... : confirm round-3 mutations stored under /verif/seeded/<ID>/round3
w=$1; shift
export CARGO_NET_OFFLINE=true CARGO_TARGET_DIR=/tmp/cf/tgt-$w CARGO_PROFILE_DEV_DEBUG=0 CARGO_PROFILE_TEST_DEBUG=0 CARGO_INCREMENTAL=0 CARGO_TERM_COLOR=never
wt=/tmp/cf/wt-$w
[ -d $wt ] || { git -C /repo worktree add --detach $wt HEAD >/dev/null 2>&1; cp /repo/Cargo.lock $wt/Cargo.lock; }
cd $wt || exit 1
for id in "$@"; do
  M=/verif/seeded/$id/round3; out=$M/confirm.txt; : > $out
  for n in 1 2 3; do
    [ -f $M/patch$n.diff ] || continue
    git checkout -q -- . ; git clean -fdq tests/ src/
    cp $M/demo$n.rs tests/mutation_demo_$n.rs
    timeout 900 cargo test --offline -j 5 --test mutation_demo_$n > /tmp/cf/$id-demo$n.orig.log 2>&1; o=$?
    if git apply $M/patch$n.diff 2>/dev/null; then a=0; else a=1; fi
    timeout 900 cargo test --offline -j 5 --test mutation_demo_$n > /tmp/cf/$id-demo$n.mut.log 2>&1; m=$?
    rm -f tests/mutation_demo_$n.rs
    timeout 1500 cargo test --workspace --no-fail-fast --offline -j 5 > /tmp/cf/$id-suite$n.log 2>&1; s=$?
    passed=$(grep -E "^test result" /tmp/cf/$id-suite$n.log | awk '{p+=$4; f+=$6} END {print p"/"f}')
    timeout 600 cargo check --offline -j 5 --features verif-hooks > /tmp/cf/$id-hooks$n.log 2>&1; h=$?
    echo "$id m$n apply=$a demo_orig_rc=$o demo_mut_rc=$m suite_rc=$s suite_passed/failed=$passed hooks_build_rc=$h" >> $out
    git checkout -q -- . ; git clean -fdq tests/ src/
  done
done
