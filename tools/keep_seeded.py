#!/usr/bin/env python3
"""keep_seeded.py <ID> [check ids...] — apply each /tmp/mut/<ID>/MUTATION/patchN.diff to /repo, run the
property's own check (plus the extra checks given), undo, and store patch/demo/meta under /verif/seeded/<ID>/."""
import json, os, re, shutil, subprocess, sys
pid = sys.argv[1]
checks = [pid] + sys.argv[2:]
dst = f'/verif/seeded/{pid}'
src = f'/tmp/mut/{pid}/MUTATION'
if not os.path.isdir(src):
    src = dst  # re-evaluate the stored patches
os.makedirs(dst, exist_ok=True)
meta_path = f'{dst}/meta.json'
meta = {'property': pid, 'source': 'fresh sub-agent given only the property text and a scratch worktree', 'mutations': []}
if src != dst and os.path.exists(f'{src}/README.md'):
    shutil.copy(f'{src}/README.md', f'{dst}/README.md')
for f in sorted(os.listdir(src)):
    m = re.match(r'patch(\d+)\.diff$', f)
    if not m: continue
    n = m.group(1)
    subprocess.run(['git', '-C', '/repo', 'checkout', '-q', '--', '.'])
    r = subprocess.run(['git', '-C', '/repo', 'apply', f'{src}/{f}'], capture_output=True, text=True)
    entry = {'n': int(n), 'patch': f'patch{n}.diff', 'demo': f'demo{n}.rs', 'results': {}}
    if src != dst:
        shutil.copy(f'{src}/{f}', f'{dst}/patch{n}.diff')
        if os.path.exists(f'{src}/demo{n}.rs'): shutil.copy(f'{src}/demo{n}.rs', f'{dst}/demo{n}.rs')
    files = re.findall(r'^\+\+\+ b/(\S+)', open(f'{src}/{f}').read(), re.M)
    entry['files'] = files
    if r.returncode != 0:
        entry['results'] = {'error': 'patch does not apply: ' + r.stderr.strip()[:200]}
    else:
        for c in checks:
            out = subprocess.run(['/verif/check', c, '--tier', 'quick'], capture_output=True, text=True, cwd='/verif')
            sigs = sorted(set(re.findall(r'signature: (.*)', out.stdout)))
            entry['results'][c] = {'exit': out.returncode, 'detected': out.returncode == 1, 'signatures': sigs[:6]}
            print(f'{pid} m{n} {c}: rc={out.returncode} {len(sigs)} signature(s)')
            if c == pid and out.returncode != 1 and os.environ.get('SEEDED_THOROUGH', '1') == '1':
                out = subprocess.run(['/verif/check', c, '--tier', 'thorough'], capture_output=True, text=True, cwd='/verif')
                sigs = sorted(set(re.findall(r'signature: (.*)', out.stdout)))
                entry['results'][c + ':thorough'] = {'exit': out.returncode, 'detected': out.returncode == 1, 'signatures': sigs[:6]}
                print(f'{pid} m{n} {c} thorough: rc={out.returncode} {len(sigs)} signature(s)')
    subprocess.run(['git', '-C', '/repo', 'checkout', '-q', '--', '.'])
    meta['mutations'].append(entry)
json.dump(meta, open(meta_path, 'w'), indent=1)
st = subprocess.run(['git', '-C', '/repo', 'status', '--short'], capture_output=True, text=True).stdout
print('repo status:', st.strip() or 'clean')
