#!/usr/bin/env python3
"""Regenerate the generated tables of DESIGN.md (between <!-- BEGIN x --> / <!-- END x --> markers)."""
import json, os, re, subprocess
D = '/verif/DESIGN.md'
s = open(D).read()

def put(name, text):
    global s
    b, e = f'<!-- BEGIN {name} -->', f'<!-- END {name} -->'
    i, j = s.index(b) + len(b), s.index(e)
    s = s[:i] + '\n' + text.rstrip() + '\n' + s[j:]

# ---- findings (one row per repair commit / open finding)
k = json.load(open('/verif/known_findings.json'))['findings']
groups = {}
for f in k:
    # one row per repair commit; open findings: one row per (property, description)
    key = f.get('commit') or ('open:' + f['property'] + ':' + f['what_fails'][:80])
    g = groups.setdefault(key, {'props': [], 'whats': [], 'status': f['status'], 'commit': f.get('commit'), 'n': 0})
    if f['property'] not in g['props']: g['props'].append(f['property'])
    w = f['what_fails'].replace('|', '/').replace('\n', ' ')
    if w not in g['whats'] and (not w.startswith('same') or not g['commit']): g['whats'].append(w)
    g['n'] += 1
rows = ['| properties | status | commit in /repo | what failed (exact signatures: known_findings.json) | signatures |', '|---|---|---|---|---|']
order = subprocess.check_output(['git', '-C', '/repo', 'log', '--format=%h', '--reverse', 'bf71e0d..HEAD'], text=True).split()
def pos(key):
    return order.index(key) if key in order else 10**6
for key in sorted(groups, key=pos):
    g = groups[key]
    subj = ''
    if g['commit']:
        try: subj = subprocess.check_output(['git', '-C', '/repo', 'log', '--format=%s', '-1', g['commit']], text=True).strip()
        except Exception: pass
    what = ' // '.join(g['whats'])
    if len(what) > 420: what = what[:417] + '…'
    rows.append(f"| {', '.join(g['props'])} | {g['status']} | {('`'+g['commit']+'` '+subj) if g['commit'] else '—'} | {what} | {g['n']} |")
put('FINDINGS', '\n'.join(rows))

# ---- seeded changes (round 1: seeded/<id>/meta.json, round 2: seeded/<id>/round2/meta.json, round 3: seeded/<id>/round3/meta.json)
rows = ['| property | round | # | files touched | own check, quick tier | other checks that also fire |', '|---|---|---|---|---|---|']
tot = det = 0
per_round = {1: [0, 0], 2: [0, 0], 3: [0, 0]}
for pid in sorted(os.listdir('/verif/seeded')):
    for rnd, mp in ((1, f'/verif/seeded/{pid}/meta.json'), (2, f'/verif/seeded/{pid}/round2/meta.json'), (3, f'/verif/seeded/{pid}/round3/meta.json')):
        if not os.path.exists(mp): continue
        m = json.load(open(mp))
        for mu in m['mutations']:
            r = mu['results']
            own = r.get(pid, {})
            tot += 1; per_round[rnd][1] += 1
            others = [c for c, v in r.items() if c != pid and not c.endswith(':thorough') and isinstance(v, dict) and v.get('detected')]
            if own.get('detected'):
                cell = 'detected'; det += 1; per_round[rnd][0] += 1
            elif r.get(pid + ':thorough', {}).get('detected'):
                cell = 'missed by quick, **detected by the thorough tier**'; det += 1; per_round[rnd][0] += 1
            else:
                cell = 'not detected' + (f' (caught by {", ".join(others)}, where the behaviour belongs)' if others else '')
                if others: det += 1; per_round[rnd][0] += 1
            rows.append(f"| {pid} | {rnd} | {mu['n']} | {', '.join('`'+f+'`' for f in mu.get('files', []))} | {cell} | {', '.join(others) or '—'} |")
rows.append('')
rows.append(f'{det} of {tot} seeded changes are detected by the final checks (round 1: {per_round[1][0]} of {per_round[1][1]}, round 2: {per_round[2][0]} of {per_round[2][1]}, round 3: {per_round[3][0]} of {per_round[3][1]}).')
put('SEEDED', '\n'.join(rows))
# ---- costs
tp = '/verif/timings.json'
if os.path.exists(tp):
    t = json.load(open(tp))
    rows = ['| property | quick: wall / evaluations | thorough (native + sanitizer stages): wall / evaluations of the native part | sanitizer stages (evaluations under the tool) |', '|---|---|---|---|']
    for pid in sorted(t):
        q = t[pid].get('quick', {}); th = t[pid].get('thorough', {})
        san = '; '.join(re.sub(r'^sanitize \S+ ', '', l).replace('reports=0 violations=0 ', '') for l in th.get('sanitize', [])) or '—'
        rows.append(f"| {pid} | {q.get('wall_s','?')} s / {q.get('evaluations','?')} | {th.get('wall_s','?')} s / {th.get('evaluations','?')} | {san} |")
    rows.append('')
    rows.append('(measured on this 16-core sandbox by `tools/time_all.sh`; wall times include the incremental build check of `./check`)')
    put('COSTS', '\n'.join(rows))
open(D, 'w').write(s)
print('tables regenerated:', tot, 'seeded,', len(k), 'findings')
