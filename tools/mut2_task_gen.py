import json, os, subprocess
T = '''# Task: seed realistic defects that break one semantic property of ntex-mqtt

You are working on a **scratch git worktree** of the Rust crate ntex-mqtt (MQTT v3.1.1 / v5 client+server
framework for the ntex async runtime) at `{wt}`. Work ONLY inside `/tmp/mut2/{pid}/` (the worktree is
`/tmp/mut2/{pid}/wt`). Do NOT read, list or touch `/verif` or `/repo` — what you produce must be independent of
anything there. The sandbox has no network; always pass `--offline` to cargo and use
`CARGO_TARGET_DIR=/tmp/mut2/{pid}/target` (never the default target dir). Use at most `-j 6` for cargo builds.

## The property

**{title}**

Statement: {statement}

What it quantifies over: {quant}

Why the existing tests cannot settle it: {why}

Code it is anchored in: {files}

## What to produce

Produce **three** different source changes ("mutations") to `src/` of the crate, each of which

1. makes the property above FALSE for some input / schedule / history,
2. still compiles (also with `--features verif-hooks`) and still passes the **whole existing test suite unedited**
   (`CARGO_TARGET_DIR=/tmp/mut2/{pid}/target cargo test --workspace --no-fail-fast --offline -j 6`; 215 tests) —
   run it for each mutation and make sure of it,
3. looks like a change a developer could realistically make (a refactoring slip, an "optimisation", a
   forgotten case, a condition that is slightly off, state updated at the wrong moment, two sites that each
   look fine alone but disagree), not sabotage, and
4. **needs something specific to manifest**: a particular interleaving of tasks/handler completions, a fault or
   disconnect at a particular point, a multi-step sequence of operations, an unusual input or configuration
   value (boundary sizes, a rarely used option, wrap-around), a specific role/protocol version combination, or
   two cooperating sites. A change that the first ordinary use of the library would expose at once is NOT wanted.
   Earlier rounds already produced the obvious ones (wrong constant, dropped check on the main path, etc.);
   aim for corner cases: rarely taken branches, error/cleanup paths, v3-vs-v5 or client-vs-server asymmetries,
   state that is only wrong after a particular earlier event, arithmetic only wrong at a boundary.
   Make the three mutations different from each other in mechanism, and spread them over different files /
   roles / protocol versions where the property allows.

For each mutation N in 1..3 also write a **demonstration**: an integration test file (it will be copied to
`tests/mutation_demo_N.rs`) that FAILS on the mutated code and PASSES on the original code (verify both, the
original at least twice; bound every wait by a timeout so a hang is an assertion failure, not a hung test).
Use only crates the repository already depends on (see Cargo.toml dev-dependencies; nothing can be downloaded).
Look at `tests/*.rs` and the unit tests in `src/io.rs` for how to drive servers/clients in tests
(`ntex::server::test_server`, `ntex_io::testing::IoTest`, raw codec use, etc.).

## Deliverables (exact paths)

* `/tmp/mut2/{pid}/MUTATION/patchN.diff` — output of `git diff -- src/` for mutation N alone against the
  original tree (must apply with `git apply` on a clean checkout; patches are independent, not stacked),
* `/tmp/mut2/{pid}/MUTATION/demoN.rs` — the demonstration test for mutation N,
* `/tmp/mut2/{pid}/MUTATION/README.md` — for each mutation: what was changed, why it breaks the property,
  exactly what is needed to trigger it (role, version, configuration, sequence/interleaving), and the
  commands + observed results (existing suite passes with the patch; demo fails with it and passes without).

When you are done, leave the worktree clean (`git checkout -- . && git clean -fdq tests/` so no demo/test files remain in it) and
reply with a short summary (one paragraph per mutation). Do not delete `/tmp/mut2/{pid}/target`.
If after honest effort you can only produce two mutations that satisfy all conditions, deliver two and say so.
'''
for l in open('/verif/properties.jsonl'):
    d = json.loads(l)
    pid = d['id']
    base = f'/tmp/mut2/{pid}'
    os.makedirs(base + '/MUTATION', exist_ok=True)
    wt = base + '/wt'
    if not os.path.isdir(wt):
        subprocess.run(['git', '-C', '/repo', 'worktree', 'add', '--detach', wt, 'HEAD'], check=True, capture_output=True)
    open(base + '/TASK.md', 'w').write(T.format(pid=pid, wt=wt, title=d['title'], statement=d['statement'],
        quant=d['quantifier']['text'], why=d['why_tests_cant'], files=', '.join(d['anchors']['files'])))
print('ok')
