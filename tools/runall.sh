#!/bin/bash
# runall.sh <tier> [seed] — run every registered check, print one summary line each
tier=${1:-quick}; seed=${2:-1}
cd /verif
for id in $(python3 -c "import json;print(' '.join(c['property_id'] for c in json.load(open('MANIFEST.json'))['checks']))"); do
  s=$(date +%s)
  out=$(VERIF_SEED=$seed ./check $id --tier $tier 2>&1); rc=$?
  e=$(date +%s)
  echo "$id rc=$rc $((e-s))s $(echo "$out" | grep -E "^$id " | tail -1)"
  echo "$out" | grep -E "VIOLATION|KNOWN-FINDING|INCONCLUSIVE" | head -5
done
