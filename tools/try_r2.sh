#!/bin/bash
# try_r2.sh <ID> [tier] [check ids...] — apply each /verif/seeded/<ID>/round2/patchN.diff to /repo, run the
# property's own check (or the checks given), undo
id=$1; tier=${2:-quick}; shift; shift
checks=${@:-$id}
cd /verif
for p in /verif/seeded/$id/round2/patch*.diff; do
  [ -f "$p" ] || continue
  case "$p" in *.rebased.diff) continue;; esac
  # a patch whose context was changed by later fix: commits has a re-based twin
  [ -f "${p%.diff}.rebased.diff" ] && p="${p%.diff}.rebased.diff"
  n=$(basename $p .diff | sed 's/patch//; s/.rebased//')
  git -C /repo checkout -q -- .
  if ! git -C /repo apply "$p" 2>/tmp/apply.err; then echo "$id r2m$n: patch does not apply: $(head -1 /tmp/apply.err)"; continue; fi
  for c in $checks; do
    out=$(./check $c --tier $tier 2>&1); rc=$?
    echo "== $id r2m$n vs $c rc=$rc :: $(echo "$out" | grep -E "^$c " | tail -1)"
    echo "$out" | grep -E "signature:" | sort | uniq -c | sort -rn | head -${SIGS:-3}
  done
  git -C /repo checkout -q -- .
done
git -C /repo status --short | head -3
