#!/bin/bash
# try_r3.sh <ID> [tier] [check ids...] — like try_r2.sh for /verif/seeded/<ID>/round3
id=$1; tier=${2:-quick}; shift; shift
checks=${@:-$id}
cd /verif
for p in /verif/seeded/$id/round3/patch*.diff; do
  [ -f "$p" ] || continue
  case "$p" in *.rebased.diff) continue;; esac
  [ -f "${p%.diff}.rebased.diff" ] && p="${p%.diff}.rebased.diff"
  n=$(basename $p .diff | sed 's/patch//; s/.rebased//')
  git -C /repo checkout -q -- .
  if ! git -C /repo apply "$p" 2>/tmp/apply.err; then echo "$id r3m$n: patch does not apply: $(head -1 /tmp/apply.err)"; continue; fi
  for c in $checks; do
    out=$(./check $c --tier $tier 2>&1); rc=$?
    echo "== $id r3m$n vs $c rc=$rc :: $(echo "$out" | grep -E "^$c " | tail -1)"
    echo "$out" | grep -E "signature:" | cut -c1-200 | sort | uniq -c | sort -rn | head -${SIGS:-2}
  done
  git -C /repo checkout -q -- .
done
git -C /repo status --short | head -3
