#!/usr/bin/env python3
"""register.py <ID> <text> <level_note> <technique> — add/replace a check in MANIFEST.json and drop it from not_applicable"""
import json, sys
pid, text, note, tech = sys.argv[1:5]
m = json.load(open('/verif/MANIFEST.json'))
entry = {
    'property_id': pid,
    'quick_cmd': f'./check {pid} --tier quick',
    'thorough_cmd': f'./check {pid} --tier thorough',
    'evidence_file': f'/verif/evidence/{pid}.json',
    'replay_cmd_template': f'./check {pid} --replay {{path}}',
    'engine': 'mqtt-verif',
    'level_claimed': {'category': 'exploration', 'text': text, 'design_ref': f'DESIGN.md §6 {pid}'},
    'level_note': note,
    'technique': tech,
}
m['checks'] = [c for c in m['checks'] if c['property_id'] != pid] + [entry]
m['checks'].sort(key=lambda c: c['property_id'])
m['not_applicable'] = [n for n in m.get('not_applicable', []) if n['property_id'] != pid]
json.dump(m, open('/verif/MANIFEST.json', 'w'), indent=2)
print('registered', pid, 'checks:', [c['property_id'] for c in m['checks']], 'n/a:', [n['property_id'] for n in m['not_applicable']])
