#!/bin/bash
# confirm.sh <worker> <ID>... : for each mutation of each ID verify (a) demo passes on the original,
# (b) demo fails with the patch, (c) the existing suite passes with the patch. Writes /tmp/mut2/<ID>/confirm.txt
w=$1; shift
export CARGO_NET_OFFLINE=true CARGO_TARGET_DIR=/tmp/mut2/tgt-$w CARGO_PROFILE_DEV_DEBUG=0 CARGO_PROFILE_TEST_DEBUG=0 CARGO_INCREMENTAL=0 CARGO_TERM_COLOR=never
for id in "$@"; do
  wt=/tmp/mut2/$id/wt; M=/tmp/mut2/$id/MUTATION; out=/tmp/mut2/$id/confirm.txt; : > $out
  cd $wt || continue
  for n in 1 2 3; do
    [ -f $M/patch$n.diff ] || continue
    git checkout -q -- . ; git clean -fdq tests/ src/
    cp $M/demo$n.rs tests/mutation_demo_$n.rs
    timeout 900 cargo test --offline -j 4 --test mutation_demo_$n > /tmp/mut2/$id/demo$n.orig.log 2>&1; o=$?
    if git apply $M/patch$n.diff 2>/dev/null; then a=0; else a=1; fi
    timeout 900 cargo test --offline -j 4 --test mutation_demo_$n > /tmp/mut2/$id/demo$n.mut.log 2>&1; m=$?
    rm -f tests/mutation_demo_$n.rs
    timeout 1500 cargo test --workspace --no-fail-fast --offline -j 4 > /tmp/mut2/$id/suite$n.log 2>&1; s=$?
    passed=$(grep -E "^test result" /tmp/mut2/$id/suite$n.log | awk '{p+=$4; f+=$6} END {print p"/"f}')
    timeout 600 cargo check --offline -j 4 --features verif-hooks > /tmp/mut2/$id/hooks$n.log 2>&1; h=$?
    echo "$id m$n apply=$a demo_orig_rc=$o demo_mut_rc=$m suite_rc=$s suite_passed/failed=$passed hooks_build_rc=$h" >> $out
    git checkout -q -- . ; git clean -fdq tests/ src/
  done
done
