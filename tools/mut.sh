#!/bin/bash
# mut.sh <file> <python-replace-expr-old> <new> -- <check args...> : apply a textual mutation to /repo, run a check, undo
set -u
f=$1; old=$2; new=$3; shift 4
python3 - "$f" "$old" "$new" <<'PY'
import sys
f,old,new=sys.argv[1:4]
p='/repo/'+f
s=open(p).read()
if old not in s: print("MUT: pattern not found"); sys.exit(3)
open(p,'w').write(s.replace(old,new,1))
PY
[ $? -eq 3 ] && exit 3
cd /verif
for c in "$@"; do ./check $c --tier quick 2>&1 | grep -E "signature|^C[0-9]+ |INCONCLUSIVE|error(\[|:)" | sort | uniq -c | sort -rn | head -8; done
git -C /repo checkout -- .
