#!/usr/bin/env python3
"""eval_seeded.py [ids...] — re-evaluate every stored seeded change (round 1: seeded/<ID>/patchN.diff,
round 2: seeded/<ID>/round2/patchN.diff, round 3: seeded/<ID>/round3/patchN.diff; a `.rebased.diff` twin is used when the original context was
changed by a later fix: commit): apply to /repo, run the property's own quick check, if that misses the
designated other checks and the own thorough tier (without sanitizer stages), undo. Writes meta.json
next to the patches."""
import json, os, re, subprocess, sys
ids = sys.argv[1:] or [f'C{i:02d}' for i in range(1, 21)]
# checks of the property the behaviour really belongs to (tried when the own check misses)
OTHER = {('C03', 1, 2): ['C11'], ('C19', 1, 3): ['C20'], ('C03', 2, 3): ['C17'], ('C12', 2, 1): ['C20'], ('C19', 2, 3): ['C20'], ('C20', 2, 2): [],
         ('C01', 3, 1): ['C09'], ('C10', 3, 1): ['C19'], ('C10', 3, 3): ['C07']}
ROUNDS = [int(x) for x in os.environ.get('ROUNDS', '1,2,3').split(',')]
def run1(check, tier, nocross):
    env = dict(os.environ, VERIF_NO_SANITIZE='1')
    if nocross: env['VERIF_NO_CROSS'] = '1'
    out = subprocess.run(['/verif/check', check, '--tier', tier], capture_output=True, text=True, cwd='/verif', env=env)
    sigs = sorted(set(re.findall(r'signature: (.*)', out.stdout)))
    return {'exit': out.returncode, 'detected': out.returncode == 1, 'signatures': sigs[:6]}
def run(check, tier):
    # the property's own workload first (fast); the cross workloads (universal monitors, DESIGN §2.8)
    # only add findings, so they are run only when the own workload stays silent
    r = run1(check, tier, True)
    if not r['detected'] and tier == 'quick':
        r = run1(check, tier, False)
        r['needed_cross_workloads'] = r['detected']
    return r
for pid in ids:
    for rnd, d in ((1, f'/verif/seeded/{pid}'), (2, f'/verif/seeded/{pid}/round2'), (3, f'/verif/seeded/{pid}/round3')):
        if not os.path.isdir(d) or rnd not in ROUNDS: continue
        meta = {'property': pid, 'round': rnd, 'source': 'fresh sub-agent given only the property text and a scratch worktree', 'mutations': []}
        for f in sorted(os.listdir(d)):
            m = re.match(r'patch(\d+)\.diff$', f)
            if not m: continue
            n = int(m.group(1))
            patch = f'{d}/{f}'
            reb = patch.replace('.diff', '.rebased.diff')
            use = reb if os.path.exists(reb) else patch
            subprocess.run(['git', '-C', '/repo', 'checkout', '-q', '--', '.'])
            r = subprocess.run(['git', '-C', '/repo', 'apply', use], capture_output=True, text=True)
            entry = {'n': n, 'patch': f, 'applied': os.path.basename(use), 'demo': f'demo{n}.rs', 'files': re.findall(r'^\+\+\+ b/(\S+)', open(use).read(), re.M), 'results': {}}
            if r.returncode != 0:
                entry['results'] = {'error': 'patch does not apply: ' + r.stderr.strip()[:200]}
            else:
                entry['results'][pid] = run(pid, 'quick')
                print(f'{pid} r{rnd} m{n} own quick: {entry["results"][pid]["detected"]}', flush=True)
                if not entry['results'][pid]['detected']:
                    for c in OTHER.get((pid, rnd, n), []):
                        entry['results'][c] = run(c, 'quick')
                        print(f'{pid} r{rnd} m{n} {c} quick: {entry["results"][c]["detected"]}', flush=True)
                    if not any(v.get('detected') for v in entry['results'].values()):
                        entry['results'][pid + ':thorough'] = run(pid, 'thorough')
                        print(f'{pid} r{rnd} m{n} own thorough: {entry["results"][pid + ":thorough"]["detected"]}', flush=True)
            subprocess.run(['git', '-C', '/repo', 'checkout', '-q', '--', '.'])
            meta['mutations'].append(entry)
        json.dump(meta, open(f'{d}/meta.json', 'w'), indent=1)
st = subprocess.run(['git', '-C', '/repo', 'status', '--short'], capture_output=True, text=True).stdout
print('repo status:', st.strip() or 'clean')
