#!/bin/bash
# tools/time_all.sh [quick|thorough] — run every registered check once, record wall time, exit code,
# evaluations and the sanitizer summary in /verif/timings.json (read by gen_tables.py)
tier=${1:-quick}
cd /verif
python3 - "$tier" <<'PY'
import json, subprocess, sys, time, os, re
tier = sys.argv[1]
m = json.load(open('/verif/MANIFEST.json'))
path = '/verif/timings.json'
t = json.load(open(path)) if os.path.exists(path) else {}
only = os.environ.get('ONLY', '').split()
for c in m['checks']:
    pid = c['property_id']
    if only and pid not in only: continue
    t0 = time.time()
    r = subprocess.run(['/verif/check', pid, '--tier', tier], capture_output=True, text=True, cwd='/verif')
    wall = time.time() - t0
    line = [l for l in r.stdout.splitlines() if l.startswith(pid + ' ')]
    ev = re.search(r'evaluations=(\d+)', line[-1]).group(1) if line else '?'
    san = [l for l in r.stdout.splitlines() if l.startswith('sanitize ')]
    t.setdefault(pid, {})[tier] = {'wall_s': round(wall, 1), 'exit': r.returncode, 'evaluations': ev, 'sanitize': san}
    print(pid, tier, f'{wall:.0f}s', 'rc', r.returncode, ev, flush=True)
    for l in r.stdout.splitlines():
        if l.startswith(('VIOLATION', 'KNOWN-FINDING', 'INCONCLUSIVE', 'note:')): print('   ', l[:200])
    json.dump(t, open(path, 'w'), indent=1)
PY
