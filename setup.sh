#!/bin/bash
# MANIFEST.setup_cmd: first build of the harness (offline, from files on disk only) + self test
set -eu
export CARGO_NET_OFFLINE=true
cd /verif/harness
[ -f Cargo.lock ] || cp /repo/Cargo.lock Cargo.lock
mkdir -p /verif/out /verif/evidence
cargo build --offline --profile verif --features hooks 2>&1 | tail -3
/verif/out/target/verif/mqtt-verif selftest
